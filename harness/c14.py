"""C14 — FileDescriptor write buffering and producers: H-tie (hand-written model coq/C14; the real
abstract.FileDescriptor is subclassed with a scripted writeSomeData and driven by a minimal in-harness reactor).

case = {"sl": SEND_LIMIT, "bs": bufferSize, "scale": F, "pre": bool, "ops": [op...]}
  "pre": the descriptor starts like a client transport whose connection is not yet established (connected = 0 and
  disconnected = 0, as tcp.Client / unix.Client before doConnect succeeds, reachable as connector.transport); the op
  ["connect"] then does what BaseClient.doConnect / _connectDone do: stopReading, stopWriting, connected = 1,
  startReading.  Bytes written before that are NOT "written while connected": none may reach the OS.
  op   = ["w", hex] | ["ws", [hex...]] | ["reg", streaming, [[pact...]...]] | ["unreg"] | ["lose"] | ["losew"]
       | ["wst", [hex...]]   writeSequence(tuple)
       | ["wsi", kind, [hex...]]   writeSequence(one-shot or other iterable): kind = "gen" (generator), "iter"
                             (iterator over a list), "deque", "map" (map object)
       | ["wsbad", kind, [hex...], pos]   the same with a str element at position pos: TypeError and NOTHING buffered
       | ["wsp", j]          writeSequence(pool[j]) -- the caller-owned list object pool[j] itself (3 lists, reused)
       | ["pa", j, hex]      the caller appends to pool[j]      | ["pc", j]  the caller clears it (del pool[j][:])
         (what was written is the content of the list AT CALL TIME; the transport must never change the caller's list:
          flag "m" after an op = some pool list differs from what the caller put there)
       | ["dw", k] | ["dwerr"] | ["drop"]
  pact = ["w", hex] | ["ws", [hex...]] | ["unreg"] | ["lose"] | ["losew"]       (what a producer does inside one
                                                                                resumeProducing call)
All sizes are in *units*; the implementation is run with every unit expanded to F identical bytes (scale), limits
and accepted counts multiplied by F, and the observation is folded back to units (length abstraction, exact because
every quantity the code compares is then a multiple of F).
"""
from __future__ import annotations

from harness.common import Failure, Spec, coq_bool, coq_bytes, coq_list, coq_nat


# --------------------------------------------------------------------------------------------------------
# implementation driver


class _Reactor:
    """IReactorFDSet as far as FileDescriptor uses it."""

    def __init__(self):
        self.readers, self.writers = set(), set()

    def addReader(self, r):
        self.readers.add(r)

    def addWriter(self, w):
        self.writers.add(w)

    def removeReader(self, r):
        self.readers.discard(r)

    def removeWriter(self, w):
        self.writers.discard(w)


def _unit(b: bytes, F: int) -> str:
    """fold an F-scaled byte string back to units (hex); refuses data that is not block-constant."""
    if F == 1:
        return bytes(b).hex()
    b = bytes(b)
    if len(b) % F:
        raise AssertionError("scaled data length is not a multiple of the scale")
    out = bytearray()
    for i in range(0, len(b), F):
        blk = b[i:i + F]
        if blk != blk[:1] * F:
            raise AssertionError("scaled data block is not constant")
        out.append(blk[0])
    return bytes(out).hex()


def _iterable(kind, items):
    import collections
    if kind == "gen":
        return (x for x in items)
    if kind == "iter":
        return iter(items)
    if kind == "deque":
        return collections.deque(items)
    if kind == "map":
        return map(lambda x: x, items)
    if kind == "tuple":
        return tuple(items)
    return list(items)


def _expand(h: str, F: int) -> bytes:
    b = bytes.fromhex(h)
    if F == 1:
        return b
    return b"".join(bytes([x]) * F for x in b)


def impl(case) -> str:
    from twisted.internet import abstract, error, main
    from twisted.python import failure

    F = case.get("scale", 1)
    ev: list[str] = []
    reactor = _Reactor()

    class FD(abstract.FileDescriptor):
        SEND_LIMIT = case["sl"] * F
        bufferSize = case["bs"] * F
        verdict = None      # what the scripted OS does with the next writeSomeData
        lost = False

        def writeSomeData(self, data):
            data = bytes(data)
            v = self.verdict
            self.verdict = None
            if v is None:
                raise AssertionError("writeSomeData called outside a scripted doWrite")
            if v == "err":
                ev.append("x" + _unit(data, F))
                return main.CONNECTION_LOST
            k = min(v * F, len(data))
            ev.append("o" + _unit(data, F) + ":" + str(k // F))
            return k

        def _closeWriteConnection(self):
            ev.append("CW")

        def connectionLost(self, reason):
            self.lost = True
            ev.append("L1" if reason.check(error.ConnectionDone) else "L0")
            abstract.FileDescriptor.connectionLost(self, reason)

    class Producer:
        def __init__(self, pid, script):
            self.pid, self.script = pid, list(script)

        def pauseProducing(self):
            ev.append(f"P{self.pid}")

        def stopProducing(self):
            ev.append(f"S{self.pid}")

        def resumeProducing(self):
            ev.append(f"R{self.pid}")
            if self.script:
                for a in self.script.pop(0):
                    act(a)

    fd = FD(reactor)
    established = [not case.get("pre", False)]
    if established[0]:
        fd.connected = 1
        fd.startReading()
    nextid = [0]
    pool = [[], [], []]          # caller-owned list objects handed to writeSequence as they are
    shadow = [[], [], []]        # what the caller put into them

    def act(a):
        k = a[0]
        if k == "w":
            fd.write(_expand(a[1], F))
        elif k == "ws":
            fd.writeSequence([_expand(h, F) for h in a[1]])
        elif k == "wst":
            fd.writeSequence(tuple(_expand(h, F) for h in a[1]))
        elif k == "wsp":
            fd.writeSequence(pool[a[1]])
        elif k in ("wsi", "wsbad"):
            items = [_expand(h, F) for h in a[2]]
            if k == "wsbad":
                items.insert(a[3], "not bytes")
            arg = _iterable(a[1], items)
            if k == "wsi":
                fd.writeSequence(arg)
            else:
                try:
                    fd.writeSequence(arg)
                except TypeError:
                    pass
                else:
                    ev.append("noTypeError")
        elif k == "pa":
            pool[a[1]].append(_expand(a[2], F))
            shadow[a[1]].append(_expand(a[2], F))
        elif k == "pc":
            del pool[a[1]][:]
            del shadow[a[1]][:]
        elif k == "unreg":
            fd.unregisterProducer()
        elif k == "lose":
            fd.loseConnection()
        elif k == "losew":
            fd.loseWriteConnection()
        else:
            raise AssertionError(a)

    def disconnect(why):
        # posixbase._disconnectSelectable for a write-side / external loss
        reactor.removeReader(fd)
        reactor.removeWriter(fd)
        fd.connectionLost(failure.Failure(why))

    out = []
    for op in case["ops"]:
        del ev[:]
        k = op[0]
        if k in ("w", "ws", "wst", "wsp", "wsi", "wsbad", "pa", "pc", "unreg", "lose", "losew"):
            act(op)
        elif k == "reg":
            p = Producer(nextid[0], op[2])
            try:
                fd.registerProducer(p, op[1])
                nextid[0] += 1
            except RuntimeError:
                ev.append("E")
        elif k in ("dw", "dwerr"):
            if fd in reactor.writers:
                fd.verdict = "err" if k == "dwerr" else op[1]
                r = fd.doWrite()
                if fd.verdict is not None:
                    raise AssertionError("doWrite did not call writeSomeData")
                if r is not None:
                    disconnect(r)
        elif k == "drop":
            if not fd.lost and established[0]:
                disconnect(main.CONNECTION_LOST)
        elif k == "connect":
            if not established[0] and not fd.lost:
                established[0] = True
                fd.stopReading()
                fd.stopWriting()
                fd.connected = 1
                fd.startReading()
        else:
            raise AssertionError(op)
        out.append((",".join(ev) or "-") + "|" + ("W" if fd in reactor.writers else "") +
                   ("R" if fd in reactor.readers else "") + ("m" if pool != shadow else ""))
    return " ".join(out)


# --------------------------------------------------------------------------------------------------------
# property oracle: ghost predicates on the implementation's log, with bookkeeping independent of the model


def oracle(case, obs):
    ops = case["ops"]
    recs = obs.split(" ") if ops else []
    if len(recs) != len(ops):
        return Failure(case, "malformed log", "log")
    bs = case["bs"]
    written = b""        # bytes accepted by write()/writeSequence(): issued before connectionLost / write-side close
    sent = b""           # bytes the OS accepted
    lost = False
    wclosed = False
    losing = False       # loseConnection called while connected
    prods = {}           # id -> streaming
    cur = None           # registered producer id (by the oracle's own reading of the ops / events)
    told = False         # last call on the registered streaming producer was pauseProducing
    wrote_since_reg = False
    nextid = 0

    lost_soon = False    # a producer action called loseConnection after the write side was closed

    up = [not case.get("pre", False)]      # the connection has been established

    def on_write(datas, where):
        nonlocal written, wrote_since_reg
        if datas and up[0] and not lost and not wclosed and not lost_soon:
            written += b"".join(datas)
            wrote_since_reg = True

    def pacts_of(acts, where, evs, pos):
        """replay one resumeProducing body; the events its calls cause (pause after a write, connectionLost after a
        loseConnection on a write-closed transport) are consumed from the log as they occur.  Returns (failure, pos)."""
        nonlocal cur, losing, told, lost_soon
        for a in acts:
            if a[0] in ("w", "ws"):
                on_write(([bytes.fromhex(a[1])] if a[1] else []) if a[0] == "w" else [bytes.fromhex(h) for h in a[1]],
                         where)
                if pos < len(evs) and evs[pos][0] == "P":
                    f = handle(evs[pos], where)
                    pos += 1
                    if f:
                        return f, pos
            elif a[0] == "unreg":
                cur = None
                told = False
            elif a[0] == "lose":
                if not lost and up[0]:
                    if wclosed and not losing:
                        lost_soon = True
                    losing = True
                while pos < len(evs) and evs[pos][0] in "LS":
                    f = handle(evs[pos], where)
                    pos += 1
                    if f:
                        return f, pos
        return None, pos

    def handle(e, where):
        nonlocal sent, told, cur, wclosed, lost
        if e[0] == "o":
            data, _, n = e[1:].partition(":")
            data, n = bytes.fromhex(data), int(n)
            rest = written[len(sent):]
            if not rest.startswith(data):
                return Failure(case, where + "bytes offered to the OS are not the next unsent written bytes "
                               f"(offered {data.hex()}, unsent {rest.hex()})", "os-bytes-not-prefix")
            sent += data[:n]
        elif e[0] == "x":
            data = bytes.fromhex(e[1:])
            if not written[len(sent):].startswith(data):
                return Failure(case, where + "bytes offered to the OS are not the next unsent written bytes",
                               "os-bytes-not-prefix")
        elif e[0] == "P":
            if cur is None or int(e[1:]) != cur or not prods[cur]:
                return Failure(case, where + "pauseProducing on something that is not the registered streaming "
                               "producer", "pause-wrong-producer")
            told = True
        elif e[0] == "R":
            j = int(e[1:])
            if cur is None or j != cur:
                return Failure(case, where + "resumeProducing on a producer that is not registered",
                               "resume-wrong-producer")
            if prods[j] and len(sent) != len(written):
                return Failure(case, where + "streaming producer resumed before the buffer drained",
                               "resume-before-drain")
            told = False
            return ("resume", j)
        elif e[0] == "S":
            if int(e[1:]) == cur:
                cur = None
                told = False
        elif e == "CW":
            if len(sent) != len(written):
                return Failure(case, where + "write side closed with unsent data", "halfclose-before-flush")
            if cur is not None and not prods[cur]:
                return Failure(case, where + "write side closed while a pull producer is registered",
                               "halfclose-with-pull-producer")
            wclosed = True
        elif e == "L1":
            if len(sent) != len(written):
                return Failure(case, where + f"clean close with {len(written) - len(sent)} written byte(s) never "
                               "handed to the OS", "close-before-flush")
            if cur is not None and not prods[cur] and not wclosed:
                return Failure(case, where + "connection closed while a pull producer is registered",
                               "close-with-pull-producer")
            if not losing:
                return Failure(case, where + "clean close without loseConnection", "close-unrequested")
            if told:
                return Failure(case, where + "the buffer drained while the streaming producer was paused: it must be "
                               "resumed, but the connection was closed instead (the rest of its data is never written)",
                               "close-with-paused-producer")
            lost = True
        elif e == "L0":
            lost = True
        return None

    scripts = {}
    opool = [[], [], []]
    for i, (op, rec) in enumerate(zip(ops, recs)):
        where = f"op {i} {op[0]}: "
        evs, _, flags = rec.partition("|")
        evs = [] if evs == "-" else evs.split(",")
        k = op[0]
        # the harness-visible effects of the op itself, in program order, interleaved with the events
        if k == "w":
            on_write([bytes.fromhex(op[1])] if op[1] else [], where)
        elif k in ("ws", "wst"):
            on_write([bytes.fromhex(h) for h in op[1]], where)
        elif k == "wsi":
            on_write([bytes.fromhex(h) for h in op[2]], where)
        elif k == "wsbad":
            if "noTypeError" in evs:
                return Failure(case, where + "writeSequence accepted a sequence with a str element", "bad-element-accepted")
        elif k == "wsp":
            on_write(list(opool[op[1]]), where)          # what the list held when it was handed over
        elif k == "connect":
            if not lost:
                up[0] = True
        elif k == "pa":
            opool[op[1]].append(bytes.fromhex(op[2]))
        elif k == "pc":
            del opool[op[1]][:]
        elif k == "unreg":
            cur = None
            told = False
        elif k == "lose":
            if not lost and up[0]:
                losing = True
        elif k == "reg" and "E" not in evs and not lost:
            cur = nextid
            prods[cur] = op[1]
            scripts[cur] = [list(x) for x in op[2]]
            nextid += 1
            told = False
            wrote_since_reg = False
        elif k == "reg" and "E" not in evs and lost:
            nextid += 1
        pos = 0
        while pos < len(evs):
            r = handle(evs[pos], where)
            pos += 1
            if isinstance(r, tuple):
                if scripts[r[1]]:
                    r, pos = pacts_of(scripts[r[1]].pop(0), where, evs, pos)
                else:
                    r = None
            if r is not None:
                return r
        # state predicates after the op
        if "m" in flags:
            return Failure(case, where + "a list object the caller handed to writeSequence was changed by the transport "
                           "(the transport keeps a reference to the caller's list)", "caller-list-mutated")
        unsent = len(written) - len(sent)
        if unsent and not lost and "W" not in flags:
            return Failure(case, where + f"{unsent} byte(s) buffered but the descriptor is not registered for writing "
                           "(they would never be sent)", "stalled-with-data")
        if losing and not lost and cur is None and "W" not in flags:
            return Failure(case, where + "loseConnection pending, nothing to wait for, but not registered for writing "
                           "(the connection would never close)", "close-forgotten")
        if cur is not None and prods[cur] and wrote_since_reg and unsent > bs and not told:
            return Failure(case, where + f"{unsent} > bufferSize={bs} byte(s) buffered after a write and the streaming "
                           "producer is not paused", "not-paused-over-buffersize")
        if told and (unsent == 0 or lost):
            return Failure(case, where + "streaming producer left paused with an empty buffer (never resumed)",
                           "paused-with-empty-buffer")
    return None


# --------------------------------------------------------------------------------------------------------
# generator


class _Data:
    """successive writes carry successive byte values, so duplication / reordering / loss is visible"""

    def __init__(self, rng):
        self.n = rng.randrange(256)

    def take(self, k):
        b = bytes((self.n + i) % 256 for i in range(k))
        self.n = (self.n + k) % 256
        return b.hex()


def _len_choice(rng, sl, bs, big):
    r = rng.random()
    if r < 0.08:
        return 0
    if r < 0.45:
        return rng.randrange(1, 4)
    if r < 0.70:
        return max(0, bs + rng.randrange(-2, 3))
    if r < 0.90:
        return max(0, sl + rng.randrange(-2, 3))
    return rng.randrange(1, big)


def _k_choice(rng, sl, bs, big):
    r = rng.random()
    if r < 0.12:
        return 0
    if r < 0.40:
        return rng.randrange(1, 4)
    if r < 0.55:
        return max(0, sl + rng.randrange(-2, 3))
    if r < 0.65:
        return max(0, bs + rng.randrange(-2, 3))
    return 10 * big            # everything offered


def _gen_pacts(rng, data, sl, bs, big, streaming, last):
    acts = []
    for _ in range(rng.choice([0, 1, 1, 1, 2])):
        if rng.random() < 0.8:
            acts.append(["w", data.take(_len_choice(rng, sl, bs, big))])
        else:
            acts.append(["ws", [data.take(_len_choice(rng, sl, bs, big)) for _ in range(rng.randrange(0, 3))]])
    if last or rng.random() < 0.08:
        r = rng.random()
        if r < 0.6:
            acts.append(["unreg"])
            if rng.random() < 0.5:
                acts.append(["lose"] if rng.random() < 0.8 else ["losew"])
        elif r < 0.75:
            acts.append(["lose"])
        elif r < 0.8:
            acts.append(["losew"])
        if rng.random() < 0.2:
            acts.append(["w", data.take(rng.randrange(1, 3))])      # a write after unregister / lose
    return acts


def _gen_case(rng, sl, bs, nops, big, scale=1):
    data = _Data(rng)
    ops = []
    style = rng.choice(["mixed", "mixed", "pull", "stream", "plain", "closey", "pool", "pausedclose"])
    if style == "pausedclose":
        # streaming producer paused over bufferSize, loseConnection while it is paused, then a full drain; the producer
        # writes more when it is resumed
        n = rng.randrange(1, 4)
        script = [_gen_pacts(rng, data, sl, bs, big, True, False) or [["w", data.take(2)]] for _ in range(n)]
        ops.append(["reg", True, script])
        ops.append(["w", data.take(bs + rng.randrange(1, 4))])
        for _ in range(rng.randrange(0, 3)):
            ops.append(rng.choice([["dw", rng.randrange(0, 3)], ["w", data.take(rng.randrange(1, 3))]]))
        ops.append(["lose"])
        ops += [["dw", rng.choice([1, 2, 10 * big])] for _ in range(rng.randrange(0, 3))]
        style = "mixed"
        nops = rng.randrange(0, 6)
    for _ in range(nops):
        r = rng.random()
        if style == "pool":
            r2 = rng.random()
            j = rng.randrange(3)
            if r2 < 0.25:
                ops.append(["pa", j, data.take(_len_choice(rng, sl, bs, big))])
            elif r2 < 0.45:
                ops.append(["wsp", j])
            elif r2 < 0.53:
                ops.append(["pc", j])
            elif r2 < 0.56:
                ops.append(["wst", [data.take(rng.randrange(0, 4)) for _ in range(rng.randrange(0, 3))]])
            elif r2 < 0.60:
                good = [data.take(rng.randrange(1, 4)) for _ in range(rng.randrange(0, 3))]
                ops.append(["wsbad", rng.choice(["gen", "iter", "deque", "map", "list", "tuple"]), good,
                            rng.randrange(len(good) + 1)])
            elif r2 < 0.72:
                ops.append(["w", data.take(_len_choice(rng, sl, bs, big))])
            elif r2 < 0.9:
                ops.append(["dw", _k_choice(rng, sl, bs, big)])
            elif r2 < 0.95:
                ops.append(["reg", True, [[["w", data.take(2)]]]])
            else:
                ops.append(rng.choice([["lose"], ["unreg"], ["losew"]]))
            continue
        if style == "plain":
            w = [0.45, 0.05, 0.0, 0.0, 0.03, 0.01, 0.42, 0.02, 0.02]
        elif style == "pull":
            w = [0.08, 0.02, 0.2, 0.06, 0.08, 0.04, 0.46, 0.03, 0.03]
        elif style == "stream":
            w = [0.34, 0.06, 0.12, 0.05, 0.04, 0.02, 0.33, 0.02, 0.02]
        elif style == "closey":
            w = [0.2, 0.04, 0.1, 0.08, 0.15, 0.12, 0.25, 0.03, 0.03]
        else:
            w = [0.26, 0.06, 0.12, 0.06, 0.07, 0.05, 0.32, 0.03, 0.03]
        kind = rng.choices(["w", "ws", "reg", "unreg", "lose", "losew", "dw", "dwerr", "drop"], weights=w)[0]
        if kind == "w":
            ops.append(["w", data.take(_len_choice(rng, sl, bs, big))])
        elif kind == "ws":
            chunks = [data.take(_len_choice(rng, sl, bs, big)) for _ in range(rng.randrange(0, 4))]
            r3 = rng.random()
            if r3 < 0.55:
                ops.append(["ws", chunks])
            elif r3 < 0.65:
                ops.append(["wst", chunks])
            else:
                ops.append(["wsi", rng.choice(["gen", "iter", "deque", "map"]), chunks])
        elif kind == "reg":
            streaming = (style == "stream") or (style != "pull" and rng.random() < 0.5)
            n = rng.randrange(0, 5)
            script = [_gen_pacts(rng, data, sl, bs, big, streaming, i == n - 1 and not streaming) for i in range(n)]
            ops.append(["reg", streaming, script])
        elif kind == "dw":
            ops.append(["dw", _k_choice(rng, sl, bs, big)])
        else:
            ops.append([kind])
    # usually let the OS drain what is left, so that closes and resumes are reached
    if rng.random() < 0.7:
        ops += [["dw", 10 * big]] * rng.randrange(1, 4)
    c = {"sl": sl, "bs": bs, "ops": ops}
    if scale != 1:
        c["scale"] = scale
    if rng.random() < 0.25:
        # a client transport: some calls arrive before the connection is established
        pre_ops = []
        for _ in range(rng.randrange(0, 5)):
            r = rng.random()
            if r < 0.45:
                pre_ops.append(["w", data.take(rng.randrange(1, 4))])
            elif r < 0.6:
                pre_ops.append(["ws", [data.take(rng.randrange(1, 3)) for _ in range(rng.randrange(1, 3))]])
            elif r < 0.7:
                pre_ops.append(["wsi", rng.choice(["gen", "deque"]), [data.take(2)]])
            elif r < 0.8:
                pre_ops.append(["reg", rng.random() < 0.5, [[["w", data.take(2)]], [["w", data.take(1)]]]])
            elif r < 0.88:
                pre_ops.append(["dw", rng.choice([0, 1, 99])])
            else:
                pre_ops.append(rng.choice([["lose"], ["losew"], ["unreg"], ["drop"]]))
        c["pre"] = True
        c["ops"] = pre_ops + [["connect"]] + ops
        if rng.random() < 0.1:
            c["ops"] = pre_ops + ops          # never connected at all
    return c


def gen(rng, tier):
    cases = []
    n = 1000 if tier == "quick" else 20000
    for _ in range(n):
        sl = rng.choice([1, 2, 3, 4, 5, 8])
        bs = rng.choice([0, 1, 2, 3, 4, 6, 9])
        cases.append(_gen_case(rng, sl, bs, rng.randrange(3, 28), big=12))
    # real limits through the length abstraction: SEND_LIMIT = 128 KiB, bufferSize = 64 KiB, writes up to 1 MiB
    for _ in range(12 if tier == "quick" else 150):
        cases.append(_gen_case(rng, 128, 64, rng.randrange(4, 14), big=1024 if tier != "quick" else 300, scale=1024))
    return cases


def corpus():
    return [
        # partial writes across the coalescing limit, then orderly close
        {"sl": 3, "bs": 4, "ops": [["w", "0102030405"], ["dw", 2], ["w", "0607"], ["dw", 1], ["dw", 1], ["lose"],
                                   ["w", "08"], ["dw", 0], ["dw", 99], ["dw", 99]]},
        # streaming producer paused over bufferSize and resumed on drain, writes more when resumed
        {"sl": 4, "bs": 3, "ops": [["reg", True, [[["w", "6162636465"]]]], ["w", "61626364"], ["w", "65"], ["dw", 2],
                                   ["dw", 1], ["dw", 9], ["dw", 9], ["lose"], ["dw", 9], ["dw", 9]]},
        # pull producer keeps the connection open after loseConnection until it unregisters
        {"sl": 4, "bs": 3, "ops": [["reg", False, [[["w", "61"]], [["w", "62"]], [["unreg"]]]], ["lose"], ["dw", 9],
                                   ["dw", 9], ["dw", 9], ["dw", 9]]},
        # half-close requested with a pull producer that then unregisters: the half-close is never carried out
        # (outside the C14 statement; recorded in design.d/C14.md)
        {"sl": 4, "bs": 3, "ops": [["reg", False, [[["w", "61"]], [["unreg"]]]], ["losew"], ["dw", 9], ["dw", 9],
                                   ["dw", 9]]},
        # loseConnection after the write side is closed, with a pull producer registered afterwards
        {"sl": 2, "bs": 2, "ops": [["losew"], ["dw", 5], ["reg", False, [[["w", "61"], ["lose"], ["w", "62"]]]],
                                   ["w", "63"], ["lose"], ["dw", 5]]},
        # OS error and outside loss with data pending; later calls are ignored
        {"sl": 2, "bs": 2, "ops": [["w", "010203"], ["dw", 1], ["dwerr"], ["w", "04"], ["losew"], ["dw", 1], ["dw", 9],
                                   ["lose"], ["dw", 9]]},
        {"sl": 2, "bs": 0, "ops": [["reg", True, []], ["w", "01"], ["drop"], ["reg", True, []], ["reg", False, []],
                                   ["unreg"], ["dw", 1]]},
        # stale producerPaused flag carried to the next producer
        {"sl": 9, "bs": 1, "ops": [["reg", True, []], ["w", "0102"], ["unreg"], ["reg", True, [[["w", "03"]]]],
                                   ["dw", 9], ["dw", 9]]},
        # a client transport: what is written before the connection is established never reaches the OS
        {"sl": 4, "bs": 9, "pre": True, "ops": [["w", "7071"], ["ws", ["72"]], ["dw", 99], ["connect"], ["w", "61"],
                                                 ["dw", 99], ["connect"], ["lose"], ["dw", 99]]},
        {"sl": 4, "bs": 2, "pre": True, "ops": [["reg", True, [[["w", "62"]]]], ["w", "707172"], ["connect"],
                                                 ["w", "616263"], ["dw", 99], ["dw", 99]]},
        # one-shot iterables: every byte must be buffered exactly once; a bad element buffers nothing
        {"sl": 4, "bs": 9, "ops": [["wsi", "gen", ["6162", "63"]], ["dw", 99], ["wsi", "iter", ["64"]],
                                   ["wsi", "map", ["65", "66"]], ["wsi", "deque", ["67"]], ["dw", 99],
                                   ["wsbad", "gen", ["68", "69"], 1], ["wsbad", "list", ["6a"], 1], ["dw", 99], ["w", "6b"],
                                   ["dw", 99]]},
        # the caller reuses its list: writeSequence(L); write(x); writeSequence(L) -- and flush-then-clear
        {"sl": 4, "bs": 9, "ops": [["pa", 0, "6162"], ["pa", 0, "63"], ["wsp", 0], ["w", "78"], ["wsp", 0], ["dw", 99],
                                   ["pc", 0], ["pa", 0, "64"], ["wsp", 0], ["pc", 0], ["dw", 99], ["wst", ["65", "66"]],
                                   ["dw", 99]]},
        # loseConnection while the streaming producer is paused: the drain must resume it, not close
        {"sl": 4, "bs": 2, "ops": [["reg", True, [[["w", "6465"]], [["unreg"]]]], ["w", "616263"], ["lose"], ["dw", 99],
                                   ["dw", 99], ["dw", 99], ["dw", 99]]},
        # empty chunks in writeSequence
        {"sl": 1, "bs": 0, "ops": [["ws", [""]], ["dw", 3], ["ws", ["", "0a", ""]], ["reg", True, []], ["ws", [""]],
                                   ["dw", 0], ["dw", 1], ["ws", []], ["w", ""]]},
    ]


# --------------------------------------------------------------------------------------------------------
# model term


def _coq_pact(a):
    k = a[0]
    if k == "w":
        return f"PW {coq_bytes(bytes.fromhex(a[1]))}"
    if k == "ws":
        return f"PWS {coq_list([coq_bytes(bytes.fromhex(h)) for h in a[1]], 'bytes')}"
    return {"unreg": "PUnreg", "lose": "PLose", "losew": "PLoseW"}[k]


def _coq_op(o):
    k = o[0]
    if k == "w":
        return f"Write {coq_bytes(bytes.fromhex(o[1]))}"
    if k == "ws":
        return f"WriteSeq {coq_list([coq_bytes(bytes.fromhex(h)) for h in o[1]], 'bytes')}"
    if k == "reg":
        scr = coq_list([coq_list([_coq_pact(a) for a in acts], "pact") for acts in o[2]], "(list pact)")
        return f"Register {coq_bool(o[1])} {scr}"
    if k == "dw":
        return f"DoWrite {min(o[1], 4000)}%nat"
    return {"unreg": "Unregister", "lose": "Lose", "losew": "LoseW", "dwerr": "DoWriteErr", "drop": "Drop",
            "connect": "Connect"}[k]


def to_coq(case):
    pool = [[], [], []]
    terms = []
    for o in case["ops"]:
        k = o[0]
        if k == "pa":
            pool[o[1]].append(o[2])
            terms.append("Write (@nil N)")          # caller-side only: nothing reaches the transport
        elif k == "pc":
            del pool[o[1]][:]
            terms.append("Write (@nil N)")
        elif k == "wsp":
            terms.append(_coq_op(["ws", list(pool[o[1]])]))
        elif k == "wst":
            terms.append(_coq_op(["ws", o[1]]))
        elif k == "wsi":
            terms.append(_coq_op(["ws", o[2]]))
        elif k == "wsbad":
            terms.append("Write (@nil N)")          # TypeError, nothing buffered
        else:
            terms.append(_coq_op(o))
    return (f"({coq_bool(case.get('pre', False))}, {coq_nat(case['sl'])}, {coq_nat(case['bs'])}, "
            f"{coq_list(terms, 'op')})")


def shrink(case):
    ops = case["ops"]
    for i in range(len(ops)):
        yield {**case, "ops": ops[:i] + ops[i + 1:]}
    for i, o in enumerate(ops):
        if o[0] == "w" and len(o[1]) > 2:
            yield {**case, "ops": ops[:i] + [["w", o[1][:-2]]] + ops[i + 1:]}
        if o[0] == "reg" and o[2]:
            yield {**case, "ops": ops[:i] + [["reg", o[1], o[2][:-1]]] + ops[i + 1:]}
    if case.get("scale", 1) != 1:
        yield {**case, "scale": 1}


def _hist(c, o):
    kinds = set()
    for op in c["ops"]:
        if op[0] == "reg":
            kinds.add("push" if op[1] else "pull")
    tags = []
    if c.get("scale", 1) != 1:
        tags.append("scaled")
    tags.append("+".join(sorted(kinds)) or "noproducer")
    tags.append("close" if "L1" in o else "lost" if "L0" in o else "open")
    return " ".join(tags)


SPEC = Spec(
    pid="C14",
    gen=gen, impl=impl, oracle=oracle, corpus=corpus, shrink=shrink,
    coq_header="From C14 Require Import Model Run.",
    coq_fn="run_show",
    to_coq=to_coq,
    nontrivial=lambda c, o: ":" in o and any(t in o for t in ("L1", "R", "P", "CW")),
    histogram=_hist,
    rule="random operation histories (3-27 ops + drain) over write / writeSequence (fresh list, tuple, generator, iterator, deque, map object, a sequence "
         "with a str element, or one of three "
         "caller-owned list objects that are reused, appended to and cleared between calls) / registerProducer(scripted "
         "push or pull producer) / unregisterProducer / loseConnection / loseWriteConnection / doWrite(k) / "
         "doWrite(error) / outside loss, SEND_LIMIT in {1,2,3,4,5,8}, bufferSize in {0,1,2,3,4,6,9}, write lengths "
         "and OS-accepted counts placed at 0, 1-3, bufferSize+-2, SEND_LIMIT+-2, everything; plus length-abstracted "
         "histories at the real limits (SEND_LIMIT 128 KiB, bufferSize 64 KiB, writes up to 300 KiB quick / 1 MiB "
         "thorough, unit = 1 KiB); non-trivial = the OS accepted bytes and a close, half-close, pause or resume "
         "happened; distinct by (case, observation)",
    trusted=["hand-written model coq/C14/Model.v (tied by this correspondence run only)",
             "the in-harness reactor (reader/writer sets; doWrite only while registered as a writer; a non-None "
             "doWrite result removes the descriptor and calls connectionLost, as posixbase._disconnectSelectable)",
             "scripted producers: actions only inside resumeProducing; registerProducer is never called from a "
             "producer callback; pauseProducing/stopProducing only record"],
    assumptions=["writeSomeData returns 0 <= k <= len(data) or an exception (the OS contract)",
                 "the application does not touch the descriptor's private buffer attributes"],
    case_timeout=20.0,
)
