"""C54 — FTP server path confinement: ftp.toSegments, the protocol's working directory, FTPShell._path.

H-tie (coq/C54, which reuses C26's model of FilePath.descendant):
 * seg cases: ftp.toSegments(cwd, path) vs. the model, every string over {'/','.','a',NUL} up to length 5
   (thorough 7) under three working directories, plus random hostile strings;
 * path cases: FTPShell(FilePath(root))._path(segments).path vs. C26's descendant;
 * sess cases: a real ftp.FTP protocol object (control channel on a StringTransport, data channel a real
   ftp.DTP on a StringTransport, no network) serving an FTPShell on a scratch tree with a prefix-sharing
   sibling.  The shell is wrapped in a recording proxy at the IFTPShell boundary: the segment lists the
   protocol hands to the shell and the final PWD must equal the model's; every file-system call is observed
   with a sys.addaudithook and must stay inside the root (the property oracle, independent of the model).
"""
from __future__ import annotations

import atexit
import itertools
import os
import shutil
import sys
import tempfile

from harness.common import Failure, Spec, coq_bytes, coq_list

CWD = os.getcwdb()

DIRS = [[], ["a"], ["a", "b"], ["d"], ["a", "b", "c"], ["sp ace"], ["..."]]
FILES = [["f.txt"], ["a", "g.txt"], ["a", "b", "h.txt"], ["d", "f.txt"], ["...", "x"]]
_ENV = {}
# layouts whose root NAME is hostile to pattern matching: name of the root, names of its siblings
XLAYOUTS = {"brackets": ("pub[1]", ["pub1", "pub"]), "question": ("da?a", ["data", "dada"]),
            "star": ("r*t", ["root", "rest", "rt"]), "odd": ("n\u00e9 .d.", ["n\u00e9 .d", "ne .d."])}
XDIRS = [[], ["d"]]
XFILES = [["a.txt"], ["b.txt"], ["d", "c.txt"], ["noext"]]


def cstr(s: str) -> str:
    """str -> Coq list of code points (all < 256 in this harness)"""
    assert all(ord(c) < 256 for c in s)
    return coq_bytes(bytes(ord(c) for c in s))


def hx(s: str) -> str:
    return bytes(ord(c) for c in s).hex()


def show(segs) -> str:
    return "!" if segs is None else "[" + ",".join(hx(s) for s in segs) + "]"


def _env():
    if _ENV:
        return _ENV
    base = os.path.realpath(tempfile.mkdtemp(prefix="verif_c54_"))
    atexit.register(shutil.rmtree, base, True)
    root = os.path.join(base, "root")
    for d in DIRS:
        os.makedirs(os.path.join(root, *d), exist_ok=True)
    for f in FILES:
        with open(os.path.join(root, *f), "w") as fh:
            fh.write("public")
    for sib in ("rootsecret", "roo", "root.bak"):
        os.makedirs(os.path.join(base, sib))
        with open(os.path.join(base, sib, "s.txt"), "w") as fh:
            fh.write("SECRET")
    with open(os.path.join(base, "secret.txt"), "w") as fh:
        fh.write("SECRET")
    # second layout: the root is the ONLY entry of its parent, which is the only entry of ITS parent, so a
    # deletion that climbs out of an emptied root has nothing to stop it before <base>/lonely
    lonely = os.path.join(base, "lonely")
    root2 = os.path.join(lonely, "home", "alice", "ftp")
    os.makedirs(root2)
    with open(os.path.join(lonely, "keep.txt"), "w") as fh:
        fh.write("keep")
    # further layouts: the ROOT's own name contains glob metacharacters / space / non-ASCII / a trailing dot, next
    # to siblings that such a name would match as a pattern (pub[1] ~ pub1, da?a ~ data, r*t ~ root, rest)
    xroots = {}
    for lname, (rname, sibs) in XLAYOUTS.items():
        home = os.path.join(base, "x_" + lname)
        r = os.path.join(home, rname)
        for d in XDIRS:
            os.makedirs(os.path.join(r, *d), exist_ok=True)
        for f in XFILES:
            with open(os.path.join(r, *f), "w") as fh:
                fh.write("public")
        for sib in sibs:
            os.makedirs(os.path.join(home, sib, "d"))
            for f in (["secret.txt"], ["x.txt"], ["d", "deep.txt"]):
                with open(os.path.join(home, sib, *f), "w") as fh:
                    fh.write("SECRET")
        xroots[lname] = r
    log = []
    state = {"on": False}
    watched = ("open", "os.listdir", "os.scandir", "os.mkdir", "os.rmdir", "os.remove", "os.rename", "os.chmod",
               "os.utime", "os.symlink", "os.link", "os.truncate", "shutil.rmtree", "shutil.copyfile")
    ignore = tuple(os.fsencode(p) for p in {os.environ.get("VERIF_REPO", "/repo"), sys.prefix, sys.base_prefix,
                                           "/usr/lib", "/venv", "/verif"})

    def hook(event, args):
        if not state["on"] or event not in watched:
            return
        for p in args[:2] if event in ("os.rename", "os.symlink", "os.link", "shutil.copyfile") else args[:1]:
            if isinstance(p, (str, bytes)):
                pb = os.fsencode(p)
                if pb.startswith(ignore) or pb.endswith(b".py"):
                    continue
                kind = event
                if event == "open":
                    fl = args[2] if len(args) > 2 and isinstance(args[2], int) else 0
                    kind = "open-w" if fl & (os.O_WRONLY | os.O_RDWR) else "open"
                log.append((kind, pb))

    sys.addaudithook(hook)

    # os.stat / os.lstat are not audit events: wrap them (exists(), isdir(), the shell's stat()/list() end here)
    def wrap(fn):
        def stat(path, *a, **kw):
            if state["on"] and isinstance(path, (str, bytes)):
                try:
                    pb = os.fsencode(path)
                    if not (pb.startswith(ignore) or pb.endswith(b".py")):
                        log.append(("stat", pb))
                except Exception:
                    pass
            return fn(path, *a, **kw)
        return stat

    import twisted.python.filepath as fpm
    os.stat, os.lstat = wrap(os.stat), wrap(os.lstat)
    for name in ("stat", "lstat"):
        if hasattr(fpm, name):
            setattr(fpm, name, wrap(getattr(fpm, name)))
    from twisted.logger import globalLogBeginner
    try:
        globalLogBeginner.beginLoggingTo([lambda e: None], redirectStandardIO=False, discardBuffer=True)
    except Exception:
        pass
    _ENV.update(base=base, root=root, root2=root2, lonely=lonely, xroots=xroots, log=log, state=state)
    return _ENV


def _root_of(case):
    E = _env()
    lay = case.get("layout")
    if lay in E["xroots"]:
        return E["xroots"][lay]
    return E["root2"] if lay == "lonely" else E["root"]


def _outside_snapshot(case):
    """everything in the scratch area that is outside the FTP root"""
    E = _env()
    root = _root_of(case)
    out = set()
    for dp, dns, fns in os.walk(E["base"]):
        if dp == root:
            dns[:] = []          # the root itself is not "outside" (RMD / may remove an empty root)
            continue
        out.add(dp)
        out.update(os.path.join(dp, fn) for fn in fns)
    return out


def _restore(root, dirs, files):
    """bring a root back to exactly its pristine content (MKD creates intermediate directories, renames move things)"""
    want_d = {os.path.join(root, *d) for d in dirs}
    want_f = {os.path.join(root, *f) for f in files}
    if os.path.isdir(root):
        for d, ds, fs in os.walk(root, topdown=False):
            for x in fs:
                if os.path.join(d, x) not in want_f:
                    os.remove(os.path.join(d, x))
            for x in ds:
                if os.path.join(d, x) not in want_d:
                    shutil.rmtree(os.path.join(d, x), ignore_errors=True)
    elif os.path.lexists(root):
        os.remove(root)
    for d in sorted(want_d):
        os.makedirs(d, exist_ok=True)
    for f in want_f:
        if not os.path.isfile(f):
            with open(f, "w") as fh:
                fh.write("public")


def _reset_tree():
    """undo everything a session may have created, moved or removed"""
    E = _env()
    _restore(E["root2"], [[]], [])          # the lonely root starts every session empty
    keep = os.path.join(E["lonely"], "keep.txt")
    if not os.path.exists(keep):
        with open(keep, "w") as fh:
            fh.write("keep")
    _restore(E["root"], DIRS, FILES)
    for r in E["xroots"].values():
        _restore(r, XDIRS, XFILES)


class SpyShell:
    """records every IFTPShell call with the segment lists it is given, then delegates"""

    def __init__(self, shell, calls):
        self._shell, self._calls = shell, calls

    def __getattr__(self, name):
        target = getattr(self._shell, name)
        if not callable(target):
            return target

        def call(*args, **kw):
            segs = [list(a) for a in args if isinstance(a, (list, tuple)) and all(isinstance(x, str) for x in a)]
            if name == "rename":
                self._calls.append(segs[:2])
            elif name in ("list", "stat"):
                self._calls.append(segs[:1])      # the second sequence is the list of stat keys
            else:
                self._calls.append(segs[:1])
            return target(*args, **kw)
        return call


def _session(case) -> str:
    from twisted.internet import defer
    from twisted.internet.error import ConnectionDone
    from twisted.internet.testing import StringTransport
    from twisted.protocols import ftp
    from twisted.python.failure import Failure as TFailure
    from twisted.python.filepath import FilePath

    E = _env()
    _reset_tree()
    calls = []
    factory = ftp.FTPFactory()
    factory.timeOut = None
    proto = ftp.FTP()
    proto.factory = factory
    proto.portal = None
    t = StringTransport()
    proto.makeConnection(t)
    proto.shell = SpyShell(ftp.FTPShell(FilePath(_root_of(case))), calls)
    before = _outside_snapshot(case)
    groups = []
    proto.state = proto.AUTHED
    proto.workingDirectory = []
    out = []
    del E["log"][:]
    E["state"]["on"] = True
    try:
        for c in case["cmds"]:
            n0 = len(calls)
            l0 = len(E["log"])
            needs_dtp = c[0] in ("LIST", "NLST", "RETR", "STOR")
            dtp = None
            if needs_dtp:
                class F:
                    deferred = defer.Deferred()
                    peerCheck = False
                dtp = ftp.DTP()
                dtp.factory = F()
                dtp.pi = proto
                dt = StringTransport()
                dtp.makeConnection(dt)
                proto.dtpInstance = dtp
            # raw bytes on the control channel: the server decodes lines as latin-1 (FTP._encoding), so every
            # byte value is a code point of the path; LineReceiver splits at CRLF
            wire = c[0].encode("ascii") + (b" " + c[1].encode("latin-1") if len(c) > 1 else b"")
            assert b"\r\n" not in wire
            proto.dataReceived(wire + b"\r\n")
            # FTP.lineReceived pauses itself and resumes from a reactor.callLater(0, ...); no reactor runs here,
            # so the harness plays that tick
            if proto.paused:
                proto.resumeProducing()
            if needs_dtp:
                for _ in range(50):
                    if dt.producer is None:
                        break
                    dt.producer.resumeProducing()
                if c[0] == "STOR":
                    dtp.dataReceived(b"uploaded")
                if not dt.disconnecting or c[0] == "STOR":
                    dtp.connectionLost(TFailure(ConnectionDone()))
                proto.dtpInstance = None
            got = calls[n0:]
            out.append("+".join(show(s) for call in got for s in call) if got else "!")
            groups.append(c[0] + "=" + ",".join(ev + ":" + pb.hex() for ev, pb in E["log"][l0:]))
    finally:
        E["state"]["on"] = False
    wd = list(proto.workingDirectory)
    proto.connectionLost(TFailure(ConnectionDone()))
    after = _outside_snapshot(case)
    changed = sorted((before - after) | (after - before))
    tail = "/".join(groups)
    if changed:
        tail += " CHANGED:" + ",".join(os.fsencode(x).hex() for x in changed[:4])
    return ";".join(out) + "|" + show(wd) + " #" + tail


def impl(case) -> str:
    k = case["k"]
    if k == "seg":
        from twisted.protocols import ftp
        try:
            return show(ftp.toSegments(list(case["cwd"]), case["path"]))
        except ftp.InvalidPath:
            return "!"
    if k == "path":
        from twisted.protocols import ftp
        from twisted.python.filepath import FilePath, InsecurePath
        try:
            r = ftp.FTPShell(FilePath(case["root"]))._path(list(case["segs"]))
        except InsecurePath:
            return "X"
        try:
            return "P:" + r.asTextMode().path.encode("latin-1").hex()     # one byte per code point, as in the model
        except UnicodeError:
            return "P?" + os.fsencode(r.path).hex()
    if k == "glob":
        from twisted.protocols import ftp
        return "T" if ftp._isGlobbingExpression([case["s"]]) else "F"
    return _session(case)


def oracle(case, obs):
    k = case["k"]
    if k == "seg":
        if obs == "!":
            return None
        segs = [] if obs == "[]" else [bytes.fromhex(x) for x in obs[1:-1].split(",")]
        for s in segs:
            if s in (b"", b".", b"..") or b"/" in s or b"\x00" in s:
                return Failure(case, f"toSegments returned the segment {s!r}", "toSegments-dirty-segment")
        return None
    if k == "glob":
        return None
    if k == "path":
        if obs == "X":
            return None
        root = os.path.abspath(case["root"].encode("latin-1"))
        r = bytes.fromhex(obs[2:])
        rs, ps = [c for c in r.split(b"/") if c], [c for c in root.split(b"/") if c]
        if rs[:len(ps)] != ps or b".." in rs:
            return Failure(case, f"_path returned {r!r}, outside {root!r}", "shell-path-escape")
        return None
    root = os.fsencode(_root_of(case))
    tail = obs.split(" #", 1)[1] if " #" in obs else ""
    changed = ""
    if " CHANGED:" in tail:
        tail, changed = tail.split(" CHANGED:", 1)
    for group in filter(None, tail.split("/")):
        cmd, _, evs = group.partition("=")
        evs = [e.split(":") for e in evs.split(",") if e]
        for ev, h in evs:
            p = bytes.fromhex(h)
            real = os.path.realpath(p)
            inside = real.startswith(root + b"/")
            if ev == "stat" and b"\x00" in p:
                continue            # os.stat refuses the name itself before touching anything
            if b"\x00" in p or not (inside or real == root):
                return Failure(case, f"{cmd}: the FTP server touched {p!r} ({ev}), outside its root {root!r}", "ftp-escape")
        # RMD removes one directory, DELE one file (IFTPShell.removeDirectory / removeFile)
        if cmd == "RMD" and sum(1 for ev, _ in evs if ev == "os.rmdir") > 1:
            return Failure(case, "RMD removed more than the one directory it names: "
                           + ", ".join(repr(bytes.fromhex(h)) for ev, h in evs if ev == "os.rmdir"), "rmd-removes-ancestors")
        if cmd == "DELE" and sum(1 for ev, _ in evs if ev in ("os.remove", "os.rmdir")) > 1:
            return Failure(case, "DELE removed more than one entry", "dele-removes-more")
    if changed:
        names = [bytes.fromhex(h) for h in changed.split(",")]
        return Failure(case, f"the session changed the file system outside the root: {names!r}", "ftp-outside-modified")
    return None


def model_equal(case, a, b):
    return a.split(" #")[0] == b


# --------------------------------------------------------------------------------------------

PIECES = ["/", "//", ".", "..", "...", "a", "b", "c", "d", "f.txt", "g.txt", "\x00", "\\", "..\\", "*", "sp ace", "\xff", "\xc0\xaf",
          "\xe0\x80\xaf", "\x80", "\n", "\r",
          "rootsecret", "secret.txt", "s.txt", "root", "é", "~", "%2e%2e", "a\x00", "..\x00", "x"]


# byte sequences (one latin-1 code point per byte, as the server sees them) that are the UTF-8 encodings of characters
# which Unicode normalisation (NFKC/NFKD) maps onto '.', '..' or '/': U+2024 ONE DOT LEADER, U+2025 TWO DOT LEADER,
# U+FF0E FULLWIDTH FULL STOP, U+FE52 SMALL FULL STOP, U+FF0F FULLWIDTH SOLIDUS, U+2215 DIVISION SLASH, U+2044,
# U+FF3C fullwidth backslash; plus overlong UTF-8 for '.', '/' and NUL
def _u(ch):
    return ch.encode("utf-8").decode("latin-1")


CONFUSABLE_DOTDOT = [_u("\u2025"), _u("\uff0e\uff0e"), _u("\u2024\u2024"), _u("\ufe52\ufe52"), _u("\u2024\uff0e"),
                     ".\xc0\xae", "\xc0\xae\xc0\xae", "\xe0\x80\xae\xe0\x80\xae", _u("\u2025") + "\x00"]
CONFUSABLE_SEP = [_u("\uff0f"), _u("\u2215"), _u("\u2044"), _u("\uff3c"), "\xc0\xaf", "\xe0\x80\xaf", "\xc0\x80"]
CONFUSABLE = CONFUSABLE_DOTDOT + CONFUSABLE_SEP + [_u("\u2024"), _u("\uff0e"), _u("\ufe52"), _u("\u00c5"), _u("A\u030a"),
                                                  _u("\u212b"), _u("\ufb01le"), _u("\u1e9e"), _u("\u0130")]


PIECES += CONFUSABLE


def _confusable_escape(rng):
    """what would be '../' * k + sibling if a later normalisation turned these names into '..' and '/'"""
    dd = rng.choice(CONFUSABLE_DOTDOT)
    target = rng.choice(["rootsecret/s.txt", "secret.txt", "roo/s.txt", "root.bak/s.txt", "rootsecret", "mk0", "rootsecret/mk1", ""])
    k = rng.randrange(1, 4)
    if rng.random() < 0.5:
        return rng.choice(["", "/", "a/", "a/b/"]) + (dd + "/") * k + target
    sep = rng.choice(CONFUSABLE_SEP)              # a single segment that normalises to a whole relative path
    return rng.choice(["", "/", "a/"]) + sep.join([dd] * k + target.split("/"))


def _rand_path(rng, maxn=6):
    out = ""
    for _ in range(rng.randrange(0, maxn)):
        out += rng.choice(PIECES)
        r = rng.random()
        if r < 0.65:
            out += "/"
    if rng.random() < 0.25:
        out = "/" + out
    return out


def _escape_path(rng):
    """climb out with '..' runs, then name a sibling of the root"""
    k = rng.randrange(1, 6)
    return rng.choice(["", "/", "a/", "a/b/"]) + "../" * k + rng.choice(["rootsecret/s.txt", "secret.txt", "roo/s.txt",
                                                                    "root.bak/s.txt", "root/f.txt", ""])


def _rand_cmd(rng, mkn):
    r = rng.random()
    q = rng.random()
    p = _escape_path(rng) if q < 0.25 else _confusable_escape(rng) if q < 0.45 else _rand_path(rng)
    while "\r\n" in p:
        p = p.replace("\r\n", "\n")
    if r < 0.22:
        return ["CWD", p]
    if r < 0.29:
        return ["CDUP"]
    if r < 0.35:
        return ["MKD", rng.choice(["", "a/", "/a/b/", "../"]) + f"mk{rng.randrange(3)}"]
    if r < 0.40:
        return ["RMD", rng.choice(["", "a/", "/a/b/", "../"]) + f"mk{rng.randrange(3)}"]
    if r < 0.45:
        return ["STOR", rng.choice(["", "a/", "../", "../../"]) + f"up{rng.randrange(3)}"]
    if r < 0.53:
        return ["RNFR", rng.choice([p, "f.txt", f"up{rng.randrange(3)}", "../secret.txt"])]
    if r < 0.62:
        return ["RNTO", rng.choice([p, f"mk{rng.randrange(3)}", "../mk0", "a/mk1", "../../rootsecret/mk2"])]
    if r < 0.66:
        return ["DELE", rng.choice([p, f"up{rng.randrange(3)}", "../secret.txt"])]
    op = rng.choice(["LIST", "NLST", "NLST", "SIZE", "MDTM", "RETR"])
    if op == "LIST" and rng.random() < 0.3:
        p = rng.choice(["-a", "-l", "-la", "-al", "-L", "-Al", "-LA", "-aL", "-a/", "-lal", " -l"])
    if op == "NLST" and rng.random() < 0.5:
        # globbing (and what merely looks like it to fnmatch.translate) in the last segment, also reached via '..'
        p = rng.choice(["", "a/", "/a/b/", "../", "a/../", "...", ".../"]) + rng.choice(
            ["*", "*.txt", "f.txt", "g?txt", "[a-z]*", "sp ace", "a+b", "x-y", "~", "#", "a&b", "(x)", "{y}", "^", "$", "|",
             "\\", "h.txt", "b", "a", "é", "\t", "x\ny", "..", "*/..", "../*", "*/"])
    return [op, p]


def _rename_session(rng):
    """inside a sub-directory: NLST with and without a filter, RNFR ... (an intruding command) ... RNTO"""
    cmds = [["CWD", rng.choice(["a", "a/b", "d", "/a/b/c", "sp ace", "a/b/../b"])]]
    if rng.random() < 0.6:
        cmds.append(["NLST", rng.choice(["*", "*.txt", "g.txt", "", "b", "b/*", "../*", "h?txt", "/a/*", ".", "b/"])])
    cmds.append(["RNFR", rng.choice(["g.txt", "h.txt", "../f.txt", "/f.txt", "mk0", "../../secret.txt", "b/h.txt", "x\x00"])])
    if rng.random() < 0.4:
        cmds.append(rng.choice([["CWD", "/"], ["CDUP"], ["LIST", ""], ["RNFR", "/a/g.txt"], ["DELE", "g.txt"], ["NLST", "*"]]))
    cmds.append(["RNTO", rng.choice(["mk1", "../mk1", "/mk2", "./mk0", "../../mk1", "b/mk1", "mk1/", "../../../mk0", "mk\x00"])])
    if rng.random() < 0.5:
        cmds.append(["RNTO", "mk2"])                 # a second RNTO without RNFR
    if rng.random() < 0.5:
        cmds.append(["NLST", rng.choice(["*", "mk1", "../mk*", "", "-l"])])
    return cmds


def _xroot_session(rng):
    """ordinary commands (wildcards included) under a root whose own name is a pattern"""
    args = ["*.txt", "*", "?.txt", "a.txt", "", "d", "d/*", "d/c.txt", "*/c.txt", "noext", "[ab].txt", "secret.txt", "x.txt",
            "d/deep.txt", "../", ".", "*.t?t", "mk0", "up0", "/", "/d/", "b*"]
    cmds = []
    for _ in range(rng.randrange(1, 7)):
        r = rng.random()
        if r < 0.15:
            cmds.append(["CWD", rng.choice(["d", "/", "..", "/d", "*", "d/.."])])
        elif r < 0.2:
            cmds.append(["CDUP"])
        elif r < 0.3:
            cmds.append([rng.choice(["MKD", "RMD"]), rng.choice(["", "d/"]) + f"mk{rng.randrange(2)}"])
        elif r < 0.38:
            cmds.append(["STOR", rng.choice(["", "d/"]) + f"up{rng.randrange(2)}"])
        elif r < 0.45:
            cmds.append(["DELE", rng.choice([f"up{rng.randrange(2)}", "d/up0", "*.txt"])])
        elif r < 0.55:
            cmds += [["RNFR", rng.choice(["up0", "a.txt", "*.txt", "mk0"])], ["RNTO", rng.choice(["mk1", "d/mk1", "up1"])]]
        else:
            cmds.append([rng.choice(["LIST", "LIST", "NLST", "SIZE", "MDTM", "RETR"]), rng.choice(args)])
    return cmds


def _lonely_session(rng):
    """ordinary use, no path trickery: build something in an EMPTY root that is the only entry of its parent,
    then take it apart again, often completely (so that the root ends up empty)"""
    cmds, dirs, files = [], [], []
    for _ in range(rng.randrange(1, 4)):
        depth = rng.randrange(1, 4)
        path = "/".join(f"mk{rng.randrange(2)}" for _ in range(depth))
        cmds.append(["MKD", rng.choice(["", "/"]) + path])
        for d in range(1, depth + 1):
            sub = "/".join(path.split("/")[:d])
            if sub not in dirs:
                dirs.append(sub)
        if rng.random() < 0.4:
            f = path + f"/up{rng.randrange(2)}"
            cmds.append(["STOR", f])
            if f not in files:
                files.append(f)
        if rng.random() < 0.3:
            cmds.append(rng.choice([["LIST", ""], ["NLST", ""], ["CWD", "/"], ["CDUP"], ["SIZE", path], ["CWD", ".."]]))
    keep = rng.random() < 0.25
    for f in files:
        if not keep or rng.random() < 0.5:
            cmds.append(["DELE", "/" + f])
    for d in sorted(dirs, key=lambda x: -x.count("/")):
        if not keep or rng.random() < 0.5:
            cmds.append(["RMD", rng.choice(["", "/"]) + d])
    if rng.random() < 0.15:
        cmds.append(["RMD", "/"])
    return cmds


def _exhaustive(alpha, maxlen):
    for n in range(0, maxlen + 1):
        for w in itertools.product(alpha, repeat=n):
            yield "".join(w)


def gen(rng, tier):
    quick = tier == "quick"
    cases = []
    for cwd in ([], ["a"], ["a", "b"]):
        for s in _exhaustive(["/", ".", "a", "\x00"], (4 if cwd == ["a"] else 3) if quick else 5):
            cases.append({"k": "seg", "cwd": cwd, "path": s})
    for _ in range(250 if quick else 3000):
        cwd = [rng.choice(["a", "b", "x y", "é"]) for _ in range(rng.randrange(0, 4))]
        cases.append({"k": "seg", "cwd": cwd, "path": _escape_path(rng) if rng.random() < 0.3 else _rand_path(rng, 8)})
    for _ in range(120 if quick else 1000):
        root = rng.choice(["/", "//", "/srv/ftp", "/srv/ftp/", "/srv//ftp/../ftp", "/tmp/foo"])
        segs = [rng.choice(["a", "b", "ftp", "foobar", "f.txt", "...", "x y", "~", "\\", "..", ".", "", "a/b", "\x00"])
                for _ in range(rng.randrange(0, 5))]
        cases.append({"k": "path", "root": root, "segs": segs})
    for _ in range(200 if quick else 1500):
        cmds = [_rand_cmd(rng, 0) for _ in range(rng.randrange(1, 9))]
        cases.append({"k": "sess", "cmds": cmds})
    for _ in range(120 if quick else 1500):
        cases.append({"k": "sess", "layout": "lonely", "cmds": _lonely_session(rng)})
    for _ in range(150 if quick else 1500):
        cases.append({"k": "sess", "cmds": _rename_session(rng)})
    for lay in XLAYOUTS:
        for _ in range(45 if quick else 500):
            cases.append({"k": "sess", "layout": lay, "cmds": _xroot_session(rng)})
        for cmd in ("LIST", "NLST", "SIZE", "RETR", "MDTM", "DELE", "CWD"):
            for arg in ("*.txt", "*", "?.txt", "d/*"):
                cases.append({"k": "sess", "layout": lay, "cmds": [[cmd, arg]]})
    for dd in CONFUSABLE_DOTDOT + CONFUSABLE_SEP:
        for cmd in ("CWD", "MKD", "RETR", "STOR", "LIST", "SIZE", "DELE", "RMD"):
            cases.append({"k": "sess", "cmds": [[cmd, dd + "/rootsecret" + ("/mk0" if cmd in ("MKD", "STOR") else "/s.txt" if cmd in ("RETR", "SIZE", "DELE") else "")]]})
        cases.append({"k": "sess", "cmds": [["CWD", "/" + dd + "/rootsecret"], ["RETR", "s.txt"], ["RNFR", "/f.txt"], ["RNTO", dd + "/rootsecret/mk1"]]})
        cases.append({"k": "path", "root": "/srv/ftp", "segs": [dd, "other", "x"]})
        cases.append({"k": "path", "root": "/srv/ftp", "segs": ["a", dd, dd, "etc"]})
    for c in range(256):
        cases.append({"k": "glob", "s": chr(c)})
        cases.append({"k": "glob", "s": "a" + chr(c) + "b"})
    for _ in range(100 if quick else 2000):
        cases.append({"k": "glob", "s": "".join(chr(rng.choice([97, 46, 42, 63, 91, 93, 33, 45, 32, rng.randrange(256)]))
                                                for _ in range(rng.randrange(0, 6)))})
    return cases


def corpus():
    return [
        {"k": "seg", "cwd": [], "path": ".."},
        {"k": "seg", "cwd": ["a"], "path": "../.."},
        {"k": "seg", "cwd": ["a", "b"], "path": "/../x"},
        {"k": "seg", "cwd": ["a"], "path": "x\x00/y"},
        {"k": "seg", "cwd": ["a"], "path": "..//./b/"},
        {"k": "path", "root": "/tmp/foo", "segs": ["..", "foobar"]},
        {"k": "path", "root": "/tmp/foo", "segs": ["foobar", "x"]},
        {"k": "sess", "cmds": [["CWD", "a"], ["CWD", "../../rootsecret"], ["RETR", "../../secret.txt"], ["CDUP"], ["CDUP"],
                               ["RETR", "../rootsecret/s.txt"], ["LIST", "/../"], ["CWD", "/a/b"], ["RETR", "h.txt"],
                               ["STOR", "../../../up0"], ["MKD", "/../mk0"], ["RNFR", "/f.txt"], ["CWD", "/"], ["RNTO", "../mk1"],
                               ["RNTO", "mk2"], ["DELE", "../../../secret.txt"]]},
        {"k": "sess", "cmds": [["CWD", ".../"], ["NLST", ""], ["NLST", "/a/*.txt"], ["NLST", "../*"], ["NLST", "/a/b/../g.txt"],
                               ["LIST", "-aL"], ["RNFR", "../x"], ["RNFR", "f.txt"], ["RNTO", "/a/../../mk0"]]},
        {"k": "sess", "cmds": [["CWD", "\xc0\xaf..\xc0\xaf"], ["RETR", "..\xe0\x80\xafsecret.txt"], ["CWD", "\xff\xfe/\x80"], ["NLST", "\xe9*"]]},
        {"k": "sess", "layout": "lonely", "cmds": [["MKD", "mk0/mk1"], ["RMD", "mk0/mk1"], ["RMD", "mk0"]]},
        {"k": "sess", "layout": "lonely", "cmds": [["MKD", "mk0"], ["STOR", "mk0/up0"], ["DELE", "mk0/up0"], ["RMD", "/mk0"], ["RMD", "/"]]},
        {"k": "sess", "cmds": [["CWD", "a/b/c"], ["CDUP"], ["NLST", ""], ["SIZE", "h.txt"], ["MDTM", "../g.txt"], ["RMD", "/mk0"]]},
    ]


def to_coq(case):
    k = case["k"]
    segl = lambda l: coq_list([cstr(s) for s in l], "bytes")
    if k == "seg":
        if any(ord(c) > 255 for c in case["path"]) or any(ord(c) > 255 for s in case["cwd"] for c in s):
            return None
        return f"CSeg {segl(case['cwd'])} {cstr(case['path'])}"
    if k == "glob":
        if "[" in case["s"]:
            return None     # see below: bracket expressions are outside the modelled fragment
        return f"CGlob {cstr(case['s'])}"
    if k == "path":
        if any(ord(c) > 255 for s in case["segs"] for c in s):
            return None
        return f"CPath {coq_bytes(CWD)} {cstr(case['root'])} {segl(case['segs'])}"
    if any(c[0] == "NLST" for c in case["cmds"]) and any("[" in c[1] for c in case["cmds"] if len(c) > 1):
        # fnmatch.translate reproduces a well-formed bracket expression verbatim ("[ab]", "[a-z]"), so the server's
        # heuristic does NOT take such a last segment for a filter; the model treats every '[' as one.  Oracle only.
        return None
    for i, c in enumerate(case["cmds"]):
        if c[0] == "MKD" and "/" in c[1].strip("/") and any(d[0] in ("CWD", "CDUP") for d in case["cmds"][i + 1:]):
            # makeDirectory is makedirs: a nested MKD may create intermediate directories a later CWD can enter, but the
            # model's [access] is the fixed directory set of the scratch tree.  Oracle only.
            return None
    cmds = []
    for c in case["cmds"]:
        if c[0] == "CWD":
            cmds.append(f"Cwd {cstr(c[1])}")
        elif c[0] == "CDUP":
            cmds.append("Cdup")
        elif c[0] == "RNFR":
            cmds.append(f"Rnfr {cstr(c[1])}")
        elif c[0] == "RNTO":
            cmds.append(f"Rnto {cstr(c[1])}")
        elif c[0] == "LIST":
            cmds.append(f"Lst {cstr(c[1])}")
        elif c[0] == "NLST":
            cmds.append(f"Nlst {cstr(c[1])}")
        else:
            cmds.append(f"Op {cstr(c[1])}")
    lay = case.get("layout")
    dirs = coq_list([segl(d) for d in ([[]] if lay == "lonely" else XDIRS if lay in XLAYOUTS else DIRS)], "(list bytes)")
    return f"CSess {dirs} {coq_list(cmds, 'cmd')}"


def shrink(case):
    if case["k"] == "sess":
        cs = case["cmds"]
        for i in range(len(cs)):
            if len(cs) > 1:
                yield {**case, "cmds": cs[:i] + cs[i + 1:]}
    elif case["k"] == "seg":
        p = case["path"]
        for i in range(len(p)):
            yield {**case, "path": p[:i] + p[i + 1:]}


SPEC = Spec(
    pid="C54",
    gen=gen, impl=impl, oracle=oracle, corpus=corpus, shrink=shrink,
    coq_header="From TwLib Require Import PyPath.\nFrom C26 Require Import Model.\nFrom C54 Require Import Model Run.",
    coq_fn="run_show",
    to_coq=to_coq,
    model_equal=model_equal,
    nontrivial=lambda c, o: c["k"] != "seg" or o != "!",
    histogram=lambda c, o: c["k"] + (":" + c["layout"] if c.get("layout") else "") + (":refused" if o in ("!", "X") else ""),
    rule="toSegments for EVERY path over {'/','.','a',NUL} up to length 3-4 (thorough 5) under cwd [], [a], [a,b], plus "
         "random hostile paths ('..' runs aimed at prefix-sharing siblings of the root, NUL, backslash, empty "
         "segments); FTPShell._path on random segment lists (incl. dirty ones) for roots /, //, /srv/ftp, /tmp/foo; "
         "sessions of 1-8 commands (CWD CDUP LIST NLST SIZE MDTM RETR STOR DELE MKD RMD RNFR/RNTO) against a real "
         "FTP protocol object and FTPShell on a scratch tree, plus 'lonely' sessions (the root is empty and the only "
         "entry of its parent's only entry: MKD/STOR build a tree, DELE/RMD take it apart, often completely); the audit "
         "covers reads, creations, deletions and renames, each RMD may rmdir one directory only, and everything outside "
         "the root is compared before/after each session; non-trivial = accepted path, path case or session; "
         "distinct by (case, observation)",
    trusted=["hand-written model coq/C54/Model.v (+ C26's model of FilePath.descendant and coq/Lib/PyPath.v)",
             "strings are code-point lists; the harness drives the control channel in latin-1 so that every code "
             "point below 256 is one byte (the server's default UTF-8 decoding is not modelled)",
             "the session model takes 'shell.access succeeds' as an arbitrary oracle; in the correspondence it is "
             "the fixed directory set of the scratch tree (sessions create/remove only mk*/up* names they never CWD into)",
             "NLST: whether the last segment is a filter is modelled exactly for segments without '[' (bracket "
             "expressions, which fnmatch.translate may reproduce verbatim, are checked by the oracle only); which names "
             "the filter keeps is not modelled"],
    assumptions=["the shell is FTPShell/FTPAnonymousShell (paths only through _path); symbolic links are outside the property",
                 "login/authentication state is set by the harness (state = AUTHED, shell attached)"],
)
