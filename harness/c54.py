"""C54 — FTP server path confinement: ftp.toSegments, the protocol's working directory, FTPShell._path.

H-tie (coq/C54, which reuses C26's model of FilePath.descendant):
 * seg cases: ftp.toSegments(cwd, path) vs. the model, every string over {'/','.','a',NUL} up to length 5
   (thorough 7) under three working directories, plus random hostile strings;
 * path cases: FTPShell(FilePath(root))._path(segments).path vs. C26's descendant;
 * sess cases: a real ftp.FTP protocol object (control channel on a StringTransport, data channel a real
   ftp.DTP on a StringTransport, no network) serving an FTPShell on a scratch tree with a prefix-sharing
   sibling.  The shell is wrapped in a recording proxy at the IFTPShell boundary: the segment lists the
   protocol hands to the shell and the final PWD must equal the model's; every file-system call is observed
   with a sys.addaudithook and must stay inside the root (the property oracle, independent of the model).
"""
from __future__ import annotations

import atexit
import itertools
import os
import shutil
import sys
import tempfile

from harness.common import Failure, Spec, coq_bytes, coq_list

CWD = os.getcwdb()

DIRS = [[], ["a"], ["a", "b"], ["d"], ["a", "b", "c"], ["sp ace"], ["..."]]
FILES = [["f.txt"], ["a", "g.txt"], ["a", "b", "h.txt"], ["d", "f.txt"], ["...", "x"]]
_ENV = {}


def cstr(s: str) -> str:
    """str -> Coq list of code points (all < 256 in this harness)"""
    assert all(ord(c) < 256 for c in s)
    return coq_bytes(bytes(ord(c) for c in s))


def hx(s: str) -> str:
    return bytes(ord(c) for c in s).hex()


def show(segs) -> str:
    return "!" if segs is None else "[" + ",".join(hx(s) for s in segs) + "]"


def _env():
    if _ENV:
        return _ENV
    base = os.path.realpath(tempfile.mkdtemp(prefix="verif_c54_"))
    atexit.register(shutil.rmtree, base, True)
    root = os.path.join(base, "root")
    for d in DIRS:
        os.makedirs(os.path.join(root, *d), exist_ok=True)
    for f in FILES:
        with open(os.path.join(root, *f), "w") as fh:
            fh.write("public")
    for sib in ("rootsecret", "roo", "root.bak"):
        os.makedirs(os.path.join(base, sib))
        with open(os.path.join(base, sib, "s.txt"), "w") as fh:
            fh.write("SECRET")
    with open(os.path.join(base, "secret.txt"), "w") as fh:
        fh.write("SECRET")
    log = []
    state = {"on": False}
    watched = ("open", "os.listdir", "os.scandir", "os.mkdir", "os.rmdir", "os.remove", "os.rename", "os.chmod",
               "os.utime", "os.symlink", "os.link", "os.truncate", "shutil.rmtree", "shutil.copyfile")
    ignore = tuple(os.fsencode(p) for p in {os.environ.get("VERIF_REPO", "/repo"), sys.prefix, sys.base_prefix,
                                           "/usr/lib", "/venv", "/verif"})

    def hook(event, args):
        if not state["on"] or event not in watched:
            return
        for p in args[:2] if event in ("os.rename", "os.symlink", "os.link", "shutil.copyfile") else args[:1]:
            if isinstance(p, (str, bytes)):
                pb = os.fsencode(p)
                if pb.startswith(ignore) or pb.endswith(b".py"):
                    continue
                log.append(pb)

    sys.addaudithook(hook)
    from twisted.logger import globalLogBeginner
    try:
        globalLogBeginner.beginLoggingTo([lambda e: None], redirectStandardIO=False, discardBuffer=True)
    except Exception:
        pass
    _ENV.update(base=base, root=root, log=log, state=state)
    return _ENV


def _reset_tree():
    """undo what a session may have created / removed (sessions only touch names starting with 'mk' or 'up')"""
    E = _env()
    root = E["root"]
    for d, ds, fs in os.walk(root, topdown=False):
        for x in fs:
            if x.startswith(("mk", "up")):
                os.remove(os.path.join(d, x))
        for x in ds:
            if x.startswith(("mk", "up")):
                shutil.rmtree(os.path.join(d, x), ignore_errors=True)
    for d in DIRS:
        os.makedirs(os.path.join(root, *d), exist_ok=True)
    for f in FILES:
        p = os.path.join(root, *f)
        if not os.path.exists(p):
            with open(p, "w") as fh:
                fh.write("public")


class SpyShell:
    """records every IFTPShell call with the segment lists it is given, then delegates"""

    def __init__(self, shell, calls):
        self._shell, self._calls = shell, calls

    def __getattr__(self, name):
        target = getattr(self._shell, name)
        if not callable(target):
            return target

        def call(*args, **kw):
            segs = [list(a) for a in args if isinstance(a, (list, tuple)) and all(isinstance(x, str) for x in a)]
            if name == "rename":
                self._calls.append(segs[:2])
            elif name in ("list", "stat"):
                self._calls.append(segs[:1])      # the second sequence is the list of stat keys
            else:
                self._calls.append(segs[:1])
            return target(*args, **kw)
        return call


def _session(case) -> str:
    from twisted.internet import defer
    from twisted.internet.error import ConnectionDone
    from twisted.internet.testing import StringTransport
    from twisted.protocols import ftp
    from twisted.python.failure import Failure as TFailure
    from twisted.python.filepath import FilePath

    E = _env()
    _reset_tree()
    calls = []
    factory = ftp.FTPFactory()
    factory.timeOut = None
    proto = ftp.FTP()
    proto.factory = factory
    proto.portal = None
    t = StringTransport()
    proto.makeConnection(t)
    proto.shell = SpyShell(ftp.FTPShell(FilePath(E["root"])), calls)
    proto.state = proto.AUTHED
    proto.workingDirectory = []
    out = []
    del E["log"][:]
    E["state"]["on"] = True
    try:
        for c in case["cmds"]:
            n0 = len(calls)
            needs_dtp = c[0] in ("LIST", "NLST", "RETR", "STOR")
            dtp = None
            if needs_dtp:
                class F:
                    deferred = defer.Deferred()
                    peerCheck = False
                dtp = ftp.DTP()
                dtp.factory = F()
                dtp.pi = proto
                dt = StringTransport()
                dtp.makeConnection(dt)
                proto.dtpInstance = dtp
            line = c[0] if len(c) == 1 else c[0] + " " + c[1]
            if c[0] == "RN":
                proto.lineReceived(("RNFR " + c[1]).encode("latin-1"))
                proto.lineReceived(("RNTO " + c[2]).encode("latin-1"))
            else:
                proto.lineReceived(line.encode("latin-1"))
            if needs_dtp:
                for _ in range(50):
                    if dt.producer is None:
                        break
                    dt.producer.resumeProducing()
                if c[0] == "STOR":
                    dtp.dataReceived(b"uploaded")
                if not dt.disconnecting or c[0] == "STOR":
                    dtp.connectionLost(TFailure(ConnectionDone()))
                proto.dtpInstance = None
            got = calls[n0:]
            out.append("+".join(show(s) for call in got for s in call) if got else "!")
    finally:
        E["state"]["on"] = False
    wd = list(proto.workingDirectory)
    proto.connectionLost(TFailure(ConnectionDone()))
    acc = sorted(set(E["log"]))
    return ";".join(out) + "|" + show(wd) + " #" + ",".join(p.hex() for p in acc)


def impl(case) -> str:
    k = case["k"]
    if k == "seg":
        from twisted.protocols import ftp
        try:
            return show(ftp.toSegments(list(case["cwd"]), case["path"]))
        except ftp.InvalidPath:
            return "!"
    if k == "path":
        from twisted.protocols import ftp
        from twisted.python.filepath import FilePath, InsecurePath
        try:
            r = ftp.FTPShell(FilePath(case["root"]))._path(list(case["segs"]))
        except InsecurePath:
            return "X"
        return "P:" + os.fsencode(r.path).hex()
    # the protocol decodes control lines with its _encoding; latin-1 keeps every code point < 256 one byte
    from twisted.protocols import ftp
    old = ftp.FTP._encoding
    ftp.FTP._encoding = "latin-1"
    try:
        return _session(case)
    finally:
        ftp.FTP._encoding = old


def oracle(case, obs):
    k = case["k"]
    if k == "seg":
        if obs == "!":
            return None
        segs = [] if obs == "[]" else [bytes.fromhex(x) for x in obs[1:-1].split(",")]
        for s in segs:
            if s in (b"", b".", b"..") or b"/" in s or b"\x00" in s:
                return Failure(case, f"toSegments returned the segment {s!r}", "toSegments-dirty-segment")
        return None
    if k == "path":
        if obs == "X":
            return None
        root = os.path.abspath(os.fsencode(case["root"]))
        r = bytes.fromhex(obs[2:])
        rs, ps = [c for c in r.split(b"/") if c], [c for c in root.split(b"/") if c]
        if rs[:len(ps)] != ps or b".." in rs:
            return Failure(case, f"_path returned {r!r}, outside {root!r}", "shell-path-escape")
        return None
    E = _env()
    root = os.fsencode(E["root"])
    acc = obs.split(" #", 1)[1] if " #" in obs else ""
    for h in filter(None, acc.split(",")):
        p = bytes.fromhex(h)
        real = os.path.realpath(p)
        if not (real == root or real.startswith(root + b"/")) or b"\x00" in p:
            return Failure(case, f"the FTP server touched {p!r}, outside its root {root!r}", "ftp-escape")
    return None


def model_equal(case, a, b):
    return a.split(" #")[0] == b


# --------------------------------------------------------------------------------------------

PIECES = ["/", "//", ".", "..", "...", "a", "b", "c", "d", "f.txt", "g.txt", "\x00", "\\", "..\\", "*", "sp ace",
          "rootsecret", "secret.txt", "s.txt", "root", "é", "~", "%2e%2e", "a\x00", "..\x00", "x"]


def _rand_path(rng, maxn=6):
    out = ""
    for _ in range(rng.randrange(0, maxn)):
        out += rng.choice(PIECES)
        r = rng.random()
        if r < 0.65:
            out += "/"
    if rng.random() < 0.25:
        out = "/" + out
    return out


def _escape_path(rng):
    """climb out with '..' runs, then name a sibling of the root"""
    k = rng.randrange(1, 6)
    return rng.choice(["", "/", "a/", "a/b/"]) + "../" * k + rng.choice(["rootsecret/s.txt", "secret.txt", "roo/s.txt",
                                                                    "root.bak/s.txt", "root/f.txt", ""])


def _rand_cmd(rng, mkn):
    r = rng.random()
    p = _escape_path(rng) if rng.random() < 0.3 else _rand_path(rng)
    if any(ch in p for ch in "\r\n"):
        p = p.replace("\r", "").replace("\n", "")
    if r < 0.25:
        return ["CWD", p]
    if r < 0.33:
        return ["CDUP"]
    if r < 0.40:
        return ["MKD", rng.choice(["", "a/", "/a/b/", "../"]) + f"mk{rng.randrange(3)}"]
    if r < 0.45:
        return ["RMD", rng.choice(["", "a/", "/a/b/", "../"]) + f"mk{rng.randrange(3)}"]
    if r < 0.50:
        return ["STOR", rng.choice(["", "a/", "../", "../../"]) + f"up{rng.randrange(3)}"]
    if r < 0.55:
        return ["RN", p, rng.choice(["", "a/", "../"]) + f"mk{rng.randrange(3)}"]
    if r < 0.60:
        return ["DELE", rng.choice([p, f"up{rng.randrange(3)}", "../secret.txt"])]
    op = rng.choice(["LIST", "NLST", "SIZE", "MDTM", "RETR"])
    if op == "NLST":
        # NLST treats a last segment containing any character fnmatch.translate escapes ('.', '\\', '*', ...) as a
        # filter and lists its parent; that is not modelled, so NLST arguments are built from plain names and '..'
        p = "/".join(rng.choice(["a", "b", "c", "d", "..", "", "x"]) for _ in range(rng.randrange(0, 6)))
        if rng.random() < 0.2:
            p = "/" + p
    if op == "LIST" and p.lower() in ("-a", "-l", "-la", "-al"):
        p = ""
    return [op, p]


def _exhaustive(alpha, maxlen):
    for n in range(0, maxlen + 1):
        for w in itertools.product(alpha, repeat=n):
            yield "".join(w)


def gen(rng, tier):
    quick = tier == "quick"
    cases = []
    for cwd in ([], ["a"], ["a", "b"]):
        for s in _exhaustive(["/", ".", "a", "\x00"], (4 if cwd == ["a"] else 3) if quick else 5):
            cases.append({"k": "seg", "cwd": cwd, "path": s})
    for _ in range(250 if quick else 3000):
        cwd = [rng.choice(["a", "b", "x y", "é"]) for _ in range(rng.randrange(0, 4))]
        cases.append({"k": "seg", "cwd": cwd, "path": _escape_path(rng) if rng.random() < 0.3 else _rand_path(rng, 8)})
    for _ in range(120 if quick else 1000):
        root = rng.choice(["/", "//", "/srv/ftp", "/srv/ftp/", "/srv//ftp/../ftp", "/tmp/foo"])
        segs = [rng.choice(["a", "b", "ftp", "foobar", "f.txt", "...", "x y", "~", "\\", "..", ".", "", "a/b", "\x00"])
                for _ in range(rng.randrange(0, 5))]
        cases.append({"k": "path", "root": root, "segs": segs})
    for _ in range(200 if quick else 1500):
        cmds = [_rand_cmd(rng, 0) for _ in range(rng.randrange(1, 9))]
        cases.append({"k": "sess", "cmds": cmds})
    return cases


def corpus():
    return [
        {"k": "seg", "cwd": [], "path": ".."},
        {"k": "seg", "cwd": ["a"], "path": "../.."},
        {"k": "seg", "cwd": ["a", "b"], "path": "/../x"},
        {"k": "seg", "cwd": ["a"], "path": "x\x00/y"},
        {"k": "seg", "cwd": ["a"], "path": "..//./b/"},
        {"k": "path", "root": "/tmp/foo", "segs": ["..", "foobar"]},
        {"k": "path", "root": "/tmp/foo", "segs": ["foobar", "x"]},
        {"k": "sess", "cmds": [["CWD", "a"], ["CWD", "../../rootsecret"], ["RETR", "../../secret.txt"], ["CDUP"], ["CDUP"],
                               ["RETR", "../rootsecret/s.txt"], ["LIST", "/../"], ["CWD", "/a/b"], ["RETR", "h.txt"],
                               ["STOR", "../../../up0"], ["MKD", "/../mk0"], ["RN", "/f.txt", "../mk1"], ["DELE", "../../../secret.txt"]]},
        {"k": "sess", "cmds": [["CWD", "a/b/c"], ["CDUP"], ["NLST", ""], ["SIZE", "h.txt"], ["MDTM", "../g.txt"], ["RMD", "/mk0"]]},
    ]


def to_coq(case):
    k = case["k"]
    segl = lambda l: coq_list([cstr(s) for s in l], "bytes")
    if k == "seg":
        if any(ord(c) > 255 for c in case["path"]) or any(ord(c) > 255 for s in case["cwd"] for c in s):
            return None
        return f"CSeg {segl(case['cwd'])} {cstr(case['path'])}"
    if k == "path":
        if any(ord(c) > 127 for s in case["segs"] for c in s):
            return None
        return f"CPath {coq_bytes(CWD)} {cstr(case['root'])} {segl(case['segs'])}"
    if any(c[0] == "NLST" for c in case["cmds"]) and any(
            c[0] == "CWD" and any("." in seg and seg not in (".", "..") for seg in c[1].split("/")) for c in case["cmds"]):
        return None     # NLST in a directory whose name has a '.' filters its PARENT (see trusted base); oracle only
    cmds = []
    for c in case["cmds"]:
        if c[0] == "CWD":
            cmds.append(f"Cwd {cstr(c[1])}")
        elif c[0] == "CDUP":
            cmds.append("Cdup")
        elif c[0] == "RN":
            cmds.append(f"Ren {cstr(c[1])} {cstr(c[2])}")
        else:
            cmds.append(f"Op {cstr(c[1])}")
    dirs = coq_list([segl(d) for d in DIRS], "(list bytes)")
    return f"CSess {dirs} {coq_list(cmds, 'cmd')}"


def shrink(case):
    if case["k"] == "sess":
        cs = case["cmds"]
        for i in range(len(cs)):
            if len(cs) > 1:
                yield {**case, "cmds": cs[:i] + cs[i + 1:]}
    elif case["k"] == "seg":
        p = case["path"]
        for i in range(len(p)):
            yield {**case, "path": p[:i] + p[i + 1:]}


SPEC = Spec(
    pid="C54",
    gen=gen, impl=impl, oracle=oracle, corpus=corpus, shrink=shrink,
    coq_header="From TwLib Require Import PyPath.\nFrom C26 Require Import Model.\nFrom C54 Require Import Model Run.",
    coq_fn="run_show",
    to_coq=to_coq,
    model_equal=model_equal,
    nontrivial=lambda c, o: c["k"] != "seg" or o != "!",
    histogram=lambda c, o: c["k"] + (":refused" if o in ("!", "X") else ""),
    rule="toSegments for EVERY path over {'/','.','a',NUL} up to length 3-4 (thorough 5) under cwd [], [a], [a,b], plus "
         "random hostile paths ('..' runs aimed at prefix-sharing siblings of the root, NUL, backslash, empty "
         "segments); FTPShell._path on random segment lists (incl. dirty ones) for roots /, //, /srv/ftp, /tmp/foo; "
         "sessions of 1-8 commands (CWD CDUP LIST NLST SIZE MDTM RETR STOR DELE MKD RMD RNFR/RNTO) against a real "
         "FTP protocol object and FTPShell on a scratch tree; non-trivial = accepted path, path case or session; "
         "distinct by (case, observation)",
    trusted=["hand-written model coq/C54/Model.v (+ C26's model of FilePath.descendant and coq/Lib/PyPath.v)",
             "strings are code-point lists; the harness drives the control channel in latin-1 so that every code "
             "point below 256 is one byte (the server's default UTF-8 decoding is not modelled)",
             "the session model takes 'shell.access succeeds' as an arbitrary oracle; in the correspondence it is "
             "the fixed directory set of the scratch tree (sessions create/remove only mk*/up* names they never CWD into)",
             "NLST's filtering by a glob-like last segment is not modelled (NLST arguments are generated from plain "
             "names and '..' only)"],
    assumptions=["the shell is FTPShell/FTPAnonymousShell (paths only through _path); symbolic links are outside the property",
                 "login/authentication state is set by the harness (state = AUTHED, shell attached)"],
)
