"""C05 — inlineCallbacks / coroutines vs. synchronous execution (partial): H-tie.  The harness prints the case's
program as Python source (generator and `async def` variants) and runs it under the real driver; the model
(coq/C05) runs the same program through its transcription of the driver loop; the oracle runs the printed
generator synchronously with a ten-line driver of its own."""
from __future__ import annotations

import itertools
import sys

from harness.common import Failure, Spec, coq_list

# case = {"variant": "gen"|"coro", "body": stmt, "outs": [["ok", z] | ["err", n] | ["errsub", n]], "cancs": [canc],
#         "dsub": [bool], "pre": [d], "sched": [["fire", d] | ["cancel"]]}
#   canc = ["nothing"] | ["succeed", z] | ["fail", n] | ["failsub", n]
#   "errsub"/"failsub": the Deferred errbacks with an instance of a strict SUBCLASS of twisted.python.failure.Failure
#   (as PB's CopiedFailure or application subclasses are); for the property, the model and the oracle this is a plain
#   failure: the function must observe a raised exception.  dsub[d]: D[d] is an instance of a Deferred subclass.
# stmt = ["await", d] | ["yield", z] | ["mark", n] | ["raise", n] | ["return", z] | ["returnvalue", z] | ["call", body] | ["seq", a, b]
#      | ["try", body, handler] | ["finally", body, fin] | ["loop", n, body]


# suspended generators whose finally clause yields again complain when they are collected; not an observation
sys.unraisablehook = lambda *a: None


class UserErr(Exception):
    pass


class BaseErr(BaseException):
    """an application exception that is not an Exception"""


_SUB = {}


def sub_failure(exc):
    """an instance of a strict subclass of Failure wrapping exc"""
    if "F" not in _SUB:
        from twisted.python.failure import Failure as F

        class AnnotatedFailure(F):
            note = "extra"
        _SUB["F"] = AnnotatedFailure
    return _SUB["F"](exc)


def sub_deferred_class():
    if "D" not in _SUB:
        from twisted.internet import defer

        class TracedDeferred(defer.Deferred):
            pass
        _SUB["D"] = TracedDeferred
    return _SUB["D"]


class Tok:
    def __init__(self, d):
        self.d = d


def _src(s, ind, variant, defs):
    pad = "    " * ind
    k = s[0]
    if k == "await":
        rhs = f"(yield D[{s[1]}])" if variant == "gen" else f"await D[{s[1]}]"
        return [f"{pad}x = {rhs}", f"{pad}log.append('v' + canon(x))"]
    if k == "yield":
        return [f"{pad}x = yield {s[1]}", f"{pad}log.append('p' + canon(x))"]
    if k == "mark":
        return [f"{pad}log.append('m{s[1]}')"]
    if k == "raise":
        return [f"{pad}raise UserErr({s[1]})"]
    if k == "raisebase":
        return [f"{pad}raise BaseErr({s[1]})"]
    if k == "return":
        return [f"{pad}return {s[1]}"]
    if k == "returnvalue":
        return [f"{pad}returnValue({s[1]})"]
    if k == "seq":
        return _src(s[1], ind, variant, defs) + _src(s[2], ind, variant, defs)
    if k == "try":
        return ([f"{pad}try:"] + _src(s[1], ind + 1, variant, defs)
                + [f"{pad}except Exception as e:", f"{pad}    log.append('x' + canon_exc(e))"]
                + _src(s[2], ind + 1, variant, defs))
    if k == "finally":
        return [f"{pad}try:"] + _src(s[1], ind + 1, variant, defs) + [f"{pad}finally:"] + _src(s[2], ind + 1, variant, defs)
    if k == "loop":
        return [f"{pad}for _ in range({s[1]}):"] + _src(s[2], ind + 1, variant, defs)
    if k == "call":
        # a nested @inlineCallbacks function (coroutine under ensureDeferred) with this body
        idx = len(defs)
        defs.append(None)
        name = f"f{idx + 1}"
        defs[idx] = _fundef(name, s[1], variant, defs) + ([f"{name} = wrap({name})"] if variant == "gen" else [])
        rhs = f"(yield {name}(D, log))" if variant == "gen" else f"await wrap({name}(D, log))"
        return [f"{pad}x = {rhs}", f"{pad}log.append('v' + canon(x))"]
    raise ValueError(s)


def _fundef(name, body, variant, defs):
    lines = [f"def {name}(D, log):" if variant == "gen" else f"async def {name}(D, log):"]
    if variant == "gen":
        lines += ["    if False:", "        yield None"]
    return lines + _src(body, 1, variant, defs)


def source(body, variant):
    defs = []
    main = _fundef("f", body, variant, defs)
    out = []
    for d in defs:
        out += d + [""]
    return "\n".join(out + main) + "\n"


def canon(x):
    return "None" if x is None else str(x) if isinstance(x, int) else "?" + type(x).__name__


def canon_exc(e):
    from twisted.internet import defer
    if isinstance(e, UserErr):
        return f"E{e.args[0]}"
    if isinstance(e, BaseErr):
        return f"B{e.args[0]}"
    if isinstance(e, defer.CancelledError):
        return "X"
    return "?" + type(e).__name__


class OracleReturn(BaseException):
    def __init__(self, value):
        self.value = value


def _oracle_return_value(v):
    raise OracleReturn(v)


def compile_f(body, variant, wrap=None, return_value=None):
    ns = {"UserErr": UserErr, "BaseErr": BaseErr, "canon": canon, "canon_exc": canon_exc,
          "wrap": wrap or (lambda x: x), "returnValue": return_value or _oracle_return_value}
    exec(compile(source(body, variant), f"<c05-{variant}>", "exec"), ns)
    return ns["f"]


def _cancs(case):
    return case.get("cancs") or [["nothing"]] * len(case["outs"])


def impl(case) -> str:
    from twisted.internet import defer

    n = len(case["outs"])
    log = []

    def mk_canceller(d, beh):
        def canceller(dd):
            log.append(f"c{d}")
            if beh[0] == "succeed":
                dd.callback(beh[1])
            elif beh[0] == "fail":
                dd.errback(UserErr(beh[1]))
            elif beh[0] == "failsub":
                dd.errback(sub_failure(UserErr(beh[1])))
        return canceller

    dsub = case.get("dsub") or [False] * n
    D = [(sub_deferred_class() if dsub[d] else defer.Deferred)(canceller=mk_canceller(d, beh))
         for d, beh in enumerate(_cancs(case))]

    def fire(d):
        if d < n and not D[d].called:
            o = case["outs"][d]
            if o[0] == "ok":
                D[d].callback(o[1])
            elif o[0] == "errsub":
                D[d].errback(sub_failure(UserErr(o[1])))
            else:
                D[d].errback(UserErr(o[1]))

    for d in case["pre"]:
        fire(d)
    import warnings
    warnings.filterwarnings("ignore", category=DeprecationWarning)      # returnValue is deprecated
    if case["variant"] == "gen":
        f = compile_f(case["body"], "gen", wrap=defer.inlineCallbacks, return_value=defer.returnValue)
        res = defer.inlineCallbacks(f)(D, log)
    else:
        f = compile_f(case["body"], "coro", wrap=defer.ensureDeferred)
        res = defer.ensureDeferred(f(D, log))
    out = []
    res.addCallbacks(lambda v: out.append("R:" + canon(v)), lambda fl: out.append("R:" + canon_exc(fl.value)))
    for op in case["sched"]:
        if op[0] == "fire":
            fire(op[1])
        else:
            res.cancel()
    for dd in D:
        dd.addErrback(lambda fl: None)
    if len(out) > 1:
        return " ".join(log) + " | TWICE " + " ".join(out)
    return " ".join(log) + " | " + (out[0] if out else "S")


def sync_run(case):
    """The property, executed: the printed generator under a minimal driver of the harness's own (not Twisted's).
    Every awaited Deferred stands for its outcome — the predetermined one, or what its canceller made of it when
    the function was cancelled while waiting on it (a Deferred that was already awaited holds None); cancel acts on
    exactly the Deferred the function is waiting on; returns (observed sequence, result or "S")."""
    f = compile_f(case["body"], "gen")
    n = len(case["outs"])
    toks = [Tok(d) for d in range(n)]
    cancs = _cancs(case)
    import types
    log = []
    frames = [f(toks, log)]       # nested calls are ordinary calls: a stack of generators
    fired = set(case["pre"])
    cancelled, taken = set(), set()
    st = {"on": None, "res": None}

    def outcome(d):
        if d in taken:
            return ("ok", None)
        taken.add(d)
        if d in cancelled:
            b = cancs[d]
            return (("ok", b[1]) if b[0] == "succeed" else ("err", UserErr(b[1])) if b[0] in ("fail", "failsub")
                    else ("err", "X"))
        o = case["outs"][d]
        return ("ok", o[1]) if o[0] == "ok" else ("err", UserErr(o[1]))

    def resume(o):
        from twisted.internet import defer
        st["on"] = None
        send, exc = None, None
        if o is not None:
            if o[0] == "ok":
                send = o[1]
            else:
                exc = defer.CancelledError() if o[1] == "X" else o[1]
        while True:
            g = frames[-1]
            try:
                y = g.throw(exc) if exc is not None else g.send(send)
            except (StopIteration, OracleReturn) as e:
                frames.pop()
                if not frames:
                    st["res"] = "R:" + canon(e.value)
                    return
                send, exc = e.value, None
                continue
            except (Exception, BaseErr) as e:   # noqa: BLE001 - the function's uncaught exception is its outcome
                frames.pop()
                if not frames:
                    st["res"] = "R:" + canon_exc(e)
                    return
                send, exc = None, e
                continue
            send, exc = None, None
            if isinstance(y, types.GeneratorType):
                frames.append(y)
            elif isinstance(y, Tok):
                if y.d not in fired:
                    st["on"] = y.d
                    return
                o2 = outcome(y.d)
                if o2[0] == "ok":
                    send = o2[1]
                else:
                    exc = defer.CancelledError() if o2[1] == "X" else o2[1]
            else:
                send = y

    resume(None)
    for op in case["sched"]:
        if st["res"] is not None:
            break
        if op[0] == "fire":
            d = op[1]
            if d < n and d not in fired:
                fired.add(d)
                if st["on"] == d:
                    resume(outcome(d))
        elif st["on"] is not None:
            d = st["on"]
            log.append(f"c{d}")
            fired.add(d)
            cancelled.add(d)
            resume(outcome(d))
    snap = list(log)
    if st["res"] is None:
        for g in reversed(frames):
            try:
                g.close()
            except BaseException:     # a finally clause that yields again, raises, ... (cleanup only)
                pass
        return snap, "S"
    return snap, st["res"]


def oracle(case, obs):
    head, _, tail = obs.partition(" | ")
    seen = head.split(" ") if head else []
    want_log, want_res = sync_run(case)
    v = case["variant"]
    if tail.startswith("TWICE"):
        return Failure(case, "the returned Deferred fired more than once: " + obs, f"{v}-result-twice")
    if [t for t in seen if t[0] == "c"] != [t for t in want_log if t[0] == "c"]:
        return Failure(case, f"cancel calls on awaited Deferreds: got {seen}, expected {want_log}", f"{v}-cancel-calls")
    if seen != want_log:
        return Failure(case, f"the function observed {seen}, synchronously it observes {want_log}", f"{v}-observed-sequence")
    if tail != want_res:
        kind = "never-fires" if tail == "S" else "fires-while-it-should-wait" if want_res == "S" else "wrong-result"
        return Failure(case, f"result {tail}, synchronously {want_res}", f"{v}-{kind}")
    return None


# ---------------------------------------------------------------------------------------------
def _rand_stmt(rng, depth, nd, fresh=None):
    """fresh: a list used as a counter of Deferreds when every await must use a new one (coroutine variant)"""
    def aw():
        if fresh is not None:
            fresh.append(1)
            return ["await", len(fresh) - 1]
        return ["await", rng.randrange(nd)]
    r = rng.random()
    if depth <= 0 or r < 0.3:
        r2 = rng.random()
        if r2 < 0.55:
            return aw()
        if r2 < 0.65 and fresh is None:
            return ["yield", rng.randrange(100, 110)]
        if r2 < 0.8:
            return ["mark", rng.randrange(10)]
        if r2 < 0.87:
            return ["raise", rng.randrange(20, 25)]
        if r2 < 0.9:
            return ["raisebase", rng.randrange(30, 33)]
        if r2 < 0.94 and fresh is None:
            return ["returnvalue", rng.randrange(60, 65)]
        return ["return", rng.randrange(40, 45)]
    if r < 0.6:
        return ["seq", _rand_stmt(rng, depth - 1, nd, fresh), _rand_stmt(rng, depth - 1, nd, fresh)]
    if r < 0.75:
        return ["try", _rand_stmt(rng, depth - 1, nd, fresh), _rand_stmt(rng, depth - 1, nd, fresh)]
    if r < 0.85:
        return ["finally", _rand_stmt(rng, depth - 1, nd, fresh), _rand_stmt(rng, depth - 1, nd, fresh)]
    if r < 0.93:
        return ["call", _rand_stmt(rng, depth - 1, nd, fresh)]
    if fresh is not None:
        return ["loop", rng.randrange(0, 3), ["mark", rng.randrange(10)]]
    return ["loop", rng.randrange(0, 4), _rand_stmt(rng, depth - 1, nd, fresh)]


def _awaits(s):
    if s[0] == "await":
        return [s[1]]
    out = []
    for x in s[1:]:
        if isinstance(x, list):
            out += _awaits(x)
    return out


def _rand_canc(rng):
    r = rng.random()
    return (["nothing"] if r < 0.6 else ["succeed", rng.randrange(50, 60)] if r < 0.8
            else ["fail", rng.randrange(7, 9)] if r < 0.9 else ["failsub", rng.randrange(7, 9)])


def _fail_out(rng, d):
    return ["errsub", d] if rng.random() < 0.35 else ["err", d]


def gen(rng, tier):
    cases = []
    # every arrival order x every pre-fired prefix for small programs, with a cancellation injected at every point
    small = [
        ["seq", ["await", 0], ["seq", ["await", 1], ["return", 1]]],
        ["try", ["seq", ["await", 0], ["await", 1]], ["await", 2]],
        ["finally", ["seq", ["await", 0], ["raise", 9]], ["seq", ["await", 1], ["mark", 1]]],
        ["seq", ["loop", 2, ["await", 0]], ["await", 1]],
        ["finally", ["try", ["await", 0], ["return", 4]], ["seq", ["await", 1], ["return", 5]]],
        ["seq", ["try", ["await", 0], ["await", 1]], ["seq", ["yield", 7], ["await", 2]]],
        ["try", ["call", ["seq", ["await", 0], ["seq", ["await", 1], ["returnvalue", 9]]]], ["await", 2]],
        ["finally", ["call", ["finally", ["call", ["await", 0]], ["await", 1]]], ["mark", 3]],
        ["try", ["seq", ["await", 0], ["try", ["call", ["seq", ["await", 1], ["raisebase", 31]]], ["mark", 4]]], ["mark", 5]],
    ]
    for body in small:
        ds = sorted(set(_awaits(body)))
        for outs in itertools.product((True, False), repeat=len(ds)):
            for perm in itertools.permutations(ds):
                for npre in range(len(ds) + 1):
                    for nlast in (len(ds), len(ds) - 1):
                        base = [["fire", d] for d in perm[npre:nlast]]
                        scheds = [base] + [base[:k] + [["cancel"]] + base[k:] for k in range(len(base) + 1)]
                        scheds.append([["cancel"]] + base[:1] + [["cancel"]] + base[1:])
                        for sched in scheds:
                            if rng.random() > (0.15 if tier == "quick" else 0.6):
                                continue
                            cases.append({"variant": "gen", "body": body,
                                          "outs": [["ok", 10 + d] if outs[d] else _fail_out(rng, d) for d in range(len(ds))],
                                          "cancs": [_rand_canc(rng) for _ in ds],
                                          "dsub": [rng.random() < 0.3 for _ in ds],
                                          "pre": list(perm[:npre]), "sched": sched})
    for _ in range(350 if tier == "quick" else 4000):
        variant = "gen" if rng.random() < 0.6 else "coro"
        nd = rng.randrange(1, 11)
        fresh = [] if variant == "coro" else None
        body = _rand_stmt(rng, rng.randrange(1, 5), nd, fresh)
        if fresh is not None:
            nd = max(1, len(fresh))
        outs = [["ok", 10 + d] if rng.random() < 0.65 else _fail_out(rng, d) for d in range(nd)]
        order = list(range(nd))
        rng.shuffle(order)
        npre = rng.randrange(nd + 1)
        keep = nd if rng.random() < 0.8 else rng.randrange(npre, nd + 1)
        sched = [["fire", d] for d in order[npre:keep]]
        if rng.random() < 0.6:
            for _ in range(rng.choice([1, 1, 2, 3])):
                sched.insert(rng.randrange(len(sched) + 1), ["cancel"])
        cases.append({"variant": variant, "body": body, "outs": outs, "cancs": [_rand_canc(rng) for _ in range(nd)],
                      "dsub": [rng.random() < 0.3 for _ in range(nd)], "pre": order[:npre], "sched": sched})
    return cases


def corpus():
    return [
        # an awaited Deferred fails with an instance of a Failure subclass: handled / unhandled, fired later / before
        {"variant": "gen", "body": ["try", ["await", 0], ["mark", 1]], "outs": [["errsub", 0]], "cancs": [["nothing"]],
         "dsub": [False], "pre": [], "sched": [["fire", 0]]},
        {"variant": "gen", "body": ["seq", ["await", 0], ["return", 1]], "outs": [["errsub", 0]], "cancs": [["nothing"]],
         "dsub": [True], "pre": [0], "sched": []},
        {"variant": "coro", "body": ["try", ["await", 0], ["mark", 1]], "outs": [["ok", 1]], "cancs": [["failsub", 7]],
         "dsub": [False], "pre": [], "sched": [["cancel"]]},
        {"variant": "gen", "body": ["seq", ["try", ["await", 0], ["mark", 7]],
                                     ["finally", ["try", ["loop", 2, ["await", 1]], ["mark", 8]], ["seq", ["await", 2], ["return", 5]]]],
         "outs": [["err", 3], ["ok", 1], ["ok", 2]], "cancs": [["nothing"]] * 3, "pre": [2],
         "sched": [["fire", 0], ["cancel"], ["fire", 1]]},
        {"variant": "coro", "body": ["finally", ["seq", ["await", 0], ["raise", 21]], ["await", 1]],
         "outs": [["ok", 10], ["err", 1]], "cancs": [["succeed", 55], ["fail", 8]], "pre": [],
         "sched": [["cancel"], ["cancel"], ["fire", 0], ["fire", 1]]},
        {"variant": "gen", "body": ["seq", ["await", 0], ["await", 0]], "outs": [["ok", 10]], "cancs": [["nothing"]],
         "pre": [], "sched": [["fire", 0]]},
        {"variant": "gen", "body": ["try", ["await", 0], ["try", ["await", 1], ["await", 2]]],
         "outs": [["ok", 10], ["ok", 11], ["ok", 12]], "cancs": [["nothing"], ["fail", 7], ["succeed", 5]], "pre": [],
         "sched": [["cancel"], ["cancel"], ["cancel"], ["cancel"]]},
    ]


def _stmt_coq(s):
    k = s[0]
    if k == "await":
        return f"(SAwait {s[1]})"
    if k == "yield":
        return f"(SYield ({s[1]})%Z)"
    if k == "mark":
        return f"(SMark {s[1]})"
    if k == "raise":
        return f"(SRaise {s[1]})"
    if k == "raisebase":
        return f"(SRaiseBase {s[1]})"
    if k == "return":
        return f"(SReturn ({s[1]})%Z)"
    if k == "loop":
        return f"(SLoop {s[1]} {_stmt_coq(s[2])})"
    if k == "returnvalue":
        return f"(SReturnValue ({s[1]})%Z)"
    if k == "call":
        return f"(SCall {_stmt_coq(s[1])})"
    name = {"seq": "SSeq", "try": "STry", "finally": "SFinally"}[k]
    return f"({name} {_stmt_coq(s[1])} {_stmt_coq(s[2])})"


def to_coq(case):
    def canc(c):
        return "CNothing" if c[0] == "nothing" else f"(CSucceed ({c[1]})%Z)" if c[0] == "succeed" else f"(CFail {c[1]})"  # fail / failsub
    ds = coq_list([f"({'(Val (VInt (%d)%%Z))' % o[1] if o[0] == 'ok' else '(Exc (EUser %d))' % o[1]}, {canc(c)})"
                   for o, c in zip(case["outs"], _cancs(case))], "(outcome * cbeh)")
    sched = coq_list(["SCancel" if o[0] == "cancel" else f"SFire {o[1]}" for o in case["sched"]], "sop")
    return f"({_stmt_coq(case['body'])}, {ds}, {coq_list(map(str, case['pre']), 'nat')}, {sched})"


def model_equal(case, a, b):
    # the model names the Deferred it is suspended on; the implementation's observation cannot
    return a == b or (a.endswith("| S") and b.rsplit(":", 1)[0].endswith("| S") and a[:-1] == b.rsplit(":", 1)[0][:-1])


def shrink(case):
    s = case["body"]
    for x in s[1:]:
        if isinstance(x, list):
            yield {**case, "body": x}
    if case["sched"]:
        yield {**case, "sched": case["sched"][:-1]}
    for i, o in enumerate(case["sched"]):
        if o[0] == "cancel":
            yield {**case, "sched": case["sched"][:i] + case["sched"][i + 1:]}
    if case["pre"]:
        yield {**case, "pre": case["pre"][:-1], "sched": [["fire", case["pre"][-1]]] + case["sched"]}


SPEC = Spec(
    pid="C05",
    gen=gen, impl=impl, oracle=oracle, corpus=corpus, shrink=shrink,
    coq_header="From C05 Require Import Model Run.",
    coq_fn="run_show",
    to_coq=to_coq,
    model_equal=model_equal,
    nontrivial=lambda c, o: len(_awaits(c["body"])) >= 2 and "R:" in o,
    histogram=lambda c, o: c["variant"] + (" finished" if "R:" in o else " suspended"),
    describe=lambda c: {**c, "source": source(c["body"], c["variant"])},
    rule="eight small programs (two with nested inlineCallbacks calls and returnValue) x every success/failure assignment x every arrival order x every pre-fired prefix (with and "
         "without the last Deferred firing) x {no cancellation, cancel() of the returned Deferred injected at every "
         "position, two cancellations} with random canceller behaviour per Deferred, as generators (quick: 15% sample, "
         "thorough 60%); 350 (quick) / 4000 (thorough) random "
         "structured programs of depth <= 4 (await, plain yield, mark, raise, return, returnValue, seq, try/except, "
         "try/finally, loops, nested calls) over up to 10 Deferreds, 60% as @inlineCallbacks generators, 40% as coroutines under ensureDeferred "
         "(each Deferred awaited once), random pre-fired subset and arrival order, 60% with 1-3 cancellations at random "
         "positions; non-trivial = at least two awaits and "
         "the function ran to completion; distinct by (case, observation)",
    trusted=["hand-written model coq/C05/Model.v (driver loop transcription; tied by this correspondence run only)",
             "ORACLE: CPython's generator/coroutine objects implement the send/throw/StopIteration protocol as given by "
             "Model.denote (PEP 342/492); exercised by the correspondence run, not proved",
             "the harness prints the case's program as Python source and exec()s it"],
    assumptions=["Deferred callbacks run synchronously in order (C01); a Deferred awaited once holds None afterwards",
                 "the chain returned Deferred -> fresh status.deferred created by each cancellation is abstracted to "
                 "'the result' in the model; the correspondence run observes the real chain through the user's callback"],
)
