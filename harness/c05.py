"""C05 — inlineCallbacks / coroutines vs. synchronous execution (partial): H-tie.  The harness prints the case's
program as Python source (generator and `async def` variants) and runs it under the real driver; the model
(coq/C05) runs the same program through its transcription of the driver loop; the oracle runs the printed
generator synchronously with a ten-line driver of its own."""
from __future__ import annotations

import itertools
import sys

from harness.common import Failure, Spec, coq_list

# case = {"variant": "gen"|"coro", "body": stmt, "outs": [["ok", z] | ["err", n] | ["errsub", n]], "cancs": [canc],
#         "dsub": [bool], "pre": [d], "sched": [["fire", d] | ["cancel"]]}
#   canc = ["nothing"] | ["succeed", z] | ["fail", n] | ["failsub", n]
#   "chains": [kind]  the awaited Deferred's OWN callback chain, added when it is created:
#        "none" | "plus" (addCallback(v -> v + 100)) | "recover" (addErrback(failure -> 7))
#        | "inner" (addCallback(v -> a pending inner Deferred, fired later with v + 100))
#   ["hold", d] / "prehold": D[d] is pause()d and then fired (chain "inner": just fired, its callback returns the pending
#        inner Deferred): it has a raw result but delivers nothing; a later ["fire", d] unpauses it (fires the inner one).
#        The function must observe the PROCESSED outcome (after the Deferred's own callbacks), at that later point.
#   "errsub"/"failsub": the Deferred errbacks with an instance of a strict SUBCLASS of twisted.python.failure.Failure
#   (as PB's CopiedFailure or application subclasses are); for the property, the model and the oracle this is a plain
#   failure: the function must observe a raised exception.  dsub[d]: D[d] is an instance of a Deferred subclass.
#   ["cancelup", lvl]: log it, then — from inside the RUNNING function — cancel the Deferred returned by the call lvl
#   levels up the call stack (0 = this function's own); a call whose Deferred has not been handed out yet is skipped
# stmt = ["await", d] | ["yield", z] | ["mark", n] | ["raise", n] | ["return", z] | ["returnvalue", z] | ["call", body] | ["seq", a, b]
#      | ["try", body, handler] | ["finally", body, fin] | ["loop", n, body]


# suspended generators whose finally clause yields again complain when they are collected; not an observation
sys.unraisablehook = lambda *a: None


class UserErr(Exception):
    pass


class BaseErr(BaseException):
    """an application exception that is not an Exception"""


_SUB = {}


def sub_failure(exc):
    """an instance of a strict subclass of Failure wrapping exc"""
    if "F" not in _SUB:
        from twisted.python.failure import Failure as F

        class AnnotatedFailure(F):
            note = "extra"
        _SUB["F"] = AnnotatedFailure
    return _SUB["F"](exc)


def sub_deferred_class():
    if "D" not in _SUB:
        from twisted.internet import defer

        class TracedDeferred(defer.Deferred):
            pass
        _SUB["D"] = TracedDeferred
    return _SUB["D"]


class Tok:
    def __init__(self, d):
        self.d = d


def _src(s, ind, variant, defs):
    pad = "    " * ind
    k = s[0]
    if k == "await":
        rhs = f"(yield D[{s[1]}])" if variant == "gen" else f"await D[{s[1]}]"
        return [f"{pad}x = {rhs}", f"{pad}log.append('v' + canon(x))"]
    if k == "yield":
        return [f"{pad}x = yield {s[1]}", f"{pad}log.append('p' + canon(x))"]
    if k == "mark":
        return [f"{pad}log.append('m{s[1]}')"]
    if k == "raise":
        return [f"{pad}raise UserErr({s[1]})"]
    if k == "raisebase":
        return [f"{pad}raise BaseErr({s[1]})"]
    if k == "return":
        return [f"{pad}return {s[1]}"]
    if k == "returnvalue":
        return [f"{pad}returnValue({s[1]})"]
    if k == "seq":
        return _src(s[1], ind, variant, defs) + _src(s[2], ind, variant, defs)
    if k == "try":
        return ([f"{pad}try:"] + _src(s[1], ind + 1, variant, defs)
                + [f"{pad}except Exception as e:", f"{pad}    log.append('x' + canon_exc(e))"]
                + _src(s[2], ind + 1, variant, defs))
    if k == "finally":
        return [f"{pad}try:"] + _src(s[1], ind + 1, variant, defs) + [f"{pad}finally:"] + _src(s[2], ind + 1, variant, defs)
    if k == "loop":
        return [f"{pad}for _ in range({s[1]}):"] + _src(s[2], ind + 1, variant, defs)
    if k == "call":
        # a nested @inlineCallbacks function (coroutine under ensureDeferred) with this body; `call` invokes it
        # (and, under the real driver, keeps the stack of the Deferreds handed out, for cancel_up)
        idx = len(defs)
        defs.append(None)
        name = f"f{idx + 1}"
        defs[idx] = _fundef(name, s[1], variant, defs) + ([f"{name} = wrap({name})"] if variant == "gen" else [])
        rhs = f"(yield call({name}, D, log))" if variant == "gen" else f"await call({name}, D, log)"
        return [f"{pad}x = {rhs}", f"{pad}log.append('v' + canon(x))"]
    if k == "cancelup":
        return [f"{pad}log.append('k{s[1]}')", f"{pad}cancel_up({s[1]})"]
    raise ValueError(s)


def _fundef(name, body, variant, defs):
    lines = [f"def {name}(D, log):" if variant == "gen" else f"async def {name}(D, log):"]
    if variant == "gen":
        lines += ["    if False:", "        yield None"]
    return lines + _src(body, 1, variant, defs)


def source(body, variant):
    defs = []
    main = _fundef("f", body, variant, defs)
    out = []
    for d in defs:
        out += d + [""]
    return "\n".join(out + main) + "\n"


def canon(x):
    return "None" if x is None else str(x) if isinstance(x, int) else "?" + type(x).__name__


def canon_exc(e):
    from twisted.internet import defer
    if isinstance(e, UserErr):
        return f"E{e.args[0]}"
    if isinstance(e, BaseErr):
        return f"B{e.args[0]}"
    if isinstance(e, defer.CancelledError):
        return "X"
    return "?" + type(e).__name__


class OracleReturn(BaseException):
    def __init__(self, value):
        self.value = value


def _oracle_return_value(v):
    raise OracleReturn(v)


def compile_f(body, variant, wrap=None, return_value=None, call=None, cancel_up=None):
    ns = {"UserErr": UserErr, "BaseErr": BaseErr, "canon": canon, "canon_exc": canon_exc,
          "wrap": wrap or (lambda x: x), "returnValue": return_value or _oracle_return_value,
          # under the oracle's own driver a nested call is an ordinary call, and cancelling from inside a running
          # function cancels nothing (the function is not waiting on anything)
          "call": call or (lambda fn, D, log: fn(D, log)), "cancel_up": cancel_up or (lambda lvl: None)}
    exec(compile(source(body, variant), f"<c05-{variant}>", "exec"), ns)
    return ns["f"]


def _cancs(case):
    return case.get("cancs") or [["nothing"]] * len(case["outs"])


def _chains(case):
    return case.get("chains") or ["none"] * len(case["outs"])


def _process(chain, o):
    """what a Deferred with this own chain delivers when it is fired with o = ("ok", v) | ("err", tag)"""
    if o[0] == "ok":
        return ("ok", o[1] + 100) if chain in ("plus", "inner") else o
    return ("ok", 7) if chain == "recover" else o


def _delivered(case):
    """per Deferred: (outcome delivered when it fires on its own, outcome delivered when cancelled while awaited)"""
    res = []
    for o, c, ch in zip(case["outs"], _cancs(case), _chains(case)):
        own = _process(ch, ("ok", o[1]) if o[0] == "ok" else ("err", f"E{o[1]}"))
        raw_c = ("ok", c[1]) if c[0] == "succeed" else ("err", f"E{c[1]}") if c[0] in ("fail", "failsub") else ("err", "X")
        # chain "inner": a cancel reaches either the unfired Deferred with a failing canceller, or the inner Deferred
        res.append((own, raw_c if ch == "inner" else _process(ch, raw_c)))
    return res


def impl(case) -> str:
    from twisted.internet import defer

    n = len(case["outs"])
    log = []

    def mk_canceller(d, beh):
        def canceller(dd):
            log.append(f"c{d}")
            if beh[0] == "succeed":
                dd.callback(beh[1])
            elif beh[0] == "fail":
                dd.errback(UserErr(beh[1]))
            elif beh[0] == "failsub":
                dd.errback(sub_failure(UserErr(beh[1])))
        return canceller

    dsub = case.get("dsub") or [False] * n
    cancs = _cancs(case)
    D = [(sub_deferred_class() if dsub[d] else defer.Deferred)(canceller=mk_canceller(d, beh))
         for d, beh in enumerate(cancs)]
    inners, paused = {}, set()

    def make_inner(d, v):
        inners[d] = (defer.Deferred(canceller=mk_canceller(d, cancs[d])), v + 100)
        return inners[d][0]

    for d, ch in enumerate(_chains(case)):
        if ch == "plus":
            D[d].addCallback(lambda v: v + 100)
        elif ch == "recover":
            D[d].addErrback(lambda fl: 7)
        elif ch == "inner":
            D[d].addCallback(lambda v, d=d: make_inner(d, v))

    def fire_raw(d):
        o = case["outs"][d]
        if o[0] == "ok":
            D[d].callback(o[1])
        elif o[0] == "errsub":
            D[d].errback(sub_failure(UserErr(o[1])))
        else:
            D[d].errback(UserErr(o[1]))

    def fire(d):
        if d >= n:
            return
        if not D[d].called:
            fire_raw(d)
            if d in inners and not inners[d][0].called:      # chain "inner": deliver at once
                inners[d][0].callback(inners[d][1])
        elif d in paused:
            paused.discard(d)
            D[d].unpause()
        elif d in inners and not inners[d][0].called:
            inners[d][0].callback(inners[d][1])

    def hold(d):
        if d < n and not D[d].called:
            if _chains(case)[d] != "inner":
                D[d].pause()
                paused.add(d)
            fire_raw(d)

    for d in case["pre"]:
        fire(d)
    for d in case.get("prehold", []):
        hold(d)
    import warnings
    warnings.filterwarnings("ignore", category=DeprecationWarning)      # returnValue is deprecated
    stack = []          # one cell per active call, outermost first: the Deferred it returned (None until handed out)

    def call(fn, D_, log_):
        cell = [None]
        stack.append(cell)
        d = fn(D_, log_) if case["variant"] == "gen" else defer.ensureDeferred(fn(D_, log_))
        cell[0] = d

        def done(r):
            if cell in stack:
                stack.remove(cell)
            return r
        d.addBoth(done)
        return d

    def cancel_up(lvl):
        i = len(stack) - 1 - lvl
        if i >= 0 and stack[i][0] is not None:
            stack[i][0].cancel()

    if case["variant"] == "gen":
        f = compile_f(case["body"], "gen", wrap=defer.inlineCallbacks, return_value=defer.returnValue,
                      call=call, cancel_up=cancel_up)
        res = call(defer.inlineCallbacks(f), D, log)
    else:
        f = compile_f(case["body"], "coro", wrap=defer.ensureDeferred, call=call, cancel_up=cancel_up)
        res = call(f, D, log)
    out = []
    res.addCallbacks(lambda v: out.append("R:" + canon(v)), lambda fl: out.append("R:" + canon_exc(fl.value)))
    for op in case["sched"]:
        if op[0] == "fire":
            fire(op[1])
        elif op[0] == "hold":
            hold(op[1])
        else:
            res.cancel()
    if len(out) > 1:
        obs = " ".join(log) + " | TWICE " + " ".join(out)
    else:
        obs = " ".join(log) + " | " + (out[0] if out else "S")
    # after the observation has been taken: no AlreadyCalledError may have leaked into an awaited Deferred's own chain
    leaks = []
    for d, dd in enumerate(D):
        def final(r, d=d):
            if hasattr(r, "check") and r.check(defer.AlreadyCalledError):
                leaks.append(str(d))
        dd.addBoth(final)
    for x in inners.values():
        x[0].addErrback(lambda fl: None)
    return obs + (" LEAK:" + ",".join(leaks) if leaks else "")


def sync_run(case):
    """The property, executed: the printed generator under a minimal driver of the harness's own (not Twisted's).
    Every awaited Deferred stands for its outcome — the predetermined one, or what its canceller made of it when
    the function was cancelled while waiting on it (a Deferred that was already awaited holds None); cancel acts on
    exactly the Deferred the function is waiting on; returns (observed sequence, result or "S")."""
    f = compile_f(case["body"], "gen")
    n = len(case["outs"])
    toks = [Tok(d) for d in range(n)]
    cancs = _cancs(case)
    import types
    log = []
    frames = [f(toks, log)]       # nested calls are ordinary calls: a stack of generators
    fired = set(case["pre"])         # delivered
    held = set()                     # fired while paused: raw result, nothing delivered, cancel does not reach them
    cancelled, taken = set(), set()
    st = {"on": None, "res": None}
    delivered = _delivered(case)
    chains = _chains(case)

    def as_outcome(o):
        return o if o[0] == "ok" else ("err", "X") if o[1] == "X" else ("err", UserErr(int(o[1][1:])))

    coro = case["variant"] == "coro"

    def outcome(d):
        """what an await / yield of the fired Deferred d gives.  Generator: a Deferred that has been yielded once holds
        None afterwards.  Coroutine: `await d` returns / raises d's outcome EVERY time; d holds None only once the
        driver's callback on it has returned, i.e. after the function, having been suspended on d and resumed by it, has
        suspended again or finished."""
        if d in taken:
            return ("ok", None)
        if not coro:
            taken.add(d)
        return as_outcome(delivered[d][1] if d in cancelled else delivered[d][0])

    def resumed_by(d, via_cancel=False):
        # coroutine: d loses its result when the driver's callback on it returns: when the cascade started by its firing
        # is over — except during cancel(), where the callers of the function that was suspended on d are resumed only
        # after d's callbacks have returned: there d holds None as soon as that (innermost) function has finished
        st["settle"] = (d, frames[-1]) if (coro and via_cancel) else None
        resume(outcome(d))
        st["settle"] = None
        if coro:
            taken.add(d)

    def resume(o):
        from twisted.internet import defer
        st["on"] = None
        send, exc = None, None
        if o is not None:
            if o[0] == "ok":
                send = o[1]
            else:
                exc = defer.CancelledError() if o[1] == "X" else o[1]
        while True:
            g = frames[-1]
            try:
                y = g.throw(exc) if exc is not None else g.send(send)
            except (StopIteration, OracleReturn) as e:
                done = frames.pop()
                if st.get("settle") and st["settle"][1] is done:
                    taken.add(st["settle"][0])
                    st["settle"] = None
                if not frames:
                    st["res"] = "R:" + canon(e.value)
                    return
                send, exc = e.value, None
                continue
            except (Exception, BaseErr) as e:   # noqa: BLE001 - the function's uncaught exception is its outcome
                done = frames.pop()
                if st.get("settle") and st["settle"][1] is done:
                    taken.add(st["settle"][0])
                    st["settle"] = None
                if not frames:
                    st["res"] = "R:" + canon_exc(e)
                    return
                send, exc = None, e
                continue
            send, exc = None, None
            if isinstance(y, types.GeneratorType):
                frames.append(y)
            elif isinstance(y, Tok):
                if y.d not in fired:
                    st["on"] = y.d
                    return
                o2 = outcome(y.d)
                if o2[0] == "ok":
                    send = o2[1]
                else:
                    exc = defer.CancelledError() if o2[1] == "X" else o2[1]
            else:
                send = y

    def deliver(d):
        if d < n and d not in fired:
            fired.add(d)
            held.discard(d)
            if st["on"] == d:
                resumed_by(d)

    def hold(d):
        if d < n and d not in fired and d not in held:
            if chains[d] != "inner":
                held.add(d)
            elif case["outs"][d][0] != "ok":
                deliver(d)              # a failure skips the callback that would return the inner Deferred

    for d in case.get("prehold", []):
        hold(d)
    resume(None)
    for op in case["sched"]:
        if st["res"] is not None:
            break
        if op[0] == "fire":
            deliver(op[1])
        elif op[0] == "hold":
            hold(op[1])
        elif st["on"] is not None and st["on"] not in held:
            d = st["on"]
            log.append(f"c{d}")
            fired.add(d)
            cancelled.add(d)
            resumed_by(d, True)
    snap = list(log)
    if st["res"] is None:
        for g in reversed(frames):
            try:
                g.close()
            except BaseException:     # a finally clause that yields again, raises, ... (cleanup only)
                pass
        return snap, "S"
    return snap, st["res"]


def oracle(case, obs):
    head, _, tail = obs.partition(" | ")
    seen = head.split(" ") if head else []
    want_log, want_res = sync_run(case)
    v = case["variant"]
    if " LEAK:" in tail:
        return Failure(case, "AlreadyCalledError leaked into the callback chain of awaited Deferred(s) " +
                       tail.split(" LEAK:")[1] + ": " + obs, f"{v}-alreadycalled-leak")
    if tail.startswith("TWICE"):
        return Failure(case, "the returned Deferred fired more than once: " + obs, f"{v}-result-twice")
    if [t for t in seen if t[0] == "c"] != [t for t in want_log if t[0] == "c"]:
        return Failure(case, f"cancel calls on awaited Deferreds: got {seen}, expected {want_log}", f"{v}-cancel-calls")
    if seen != want_log:
        return Failure(case, f"the function observed {seen}, synchronously it observes {want_log}", f"{v}-observed-sequence")
    if tail != want_res:
        kind = "never-fires" if tail == "S" else "fires-while-it-should-wait" if want_res == "S" else "wrong-result"
        return Failure(case, f"result {tail}, synchronously {want_res}", f"{v}-{kind}")
    return None


# ---------------------------------------------------------------------------------------------
def _rand_stmt(rng, depth, nd, fresh=None):
    """fresh: not None for the coroutine variant (no plain `yield`, no returnValue); Deferreds are SHARED in both
    variants: the same Deferred may be awaited at several program points and by several (nested) functions"""
    def aw():
        return ["await", rng.randrange(nd)]
    r = rng.random()
    if depth <= 0 or r < 0.3:
        r2 = rng.random()
        if r2 < 0.55:
            return aw()
        if r2 < 0.65 and fresh is None:
            return ["yield", rng.randrange(100, 110)]
        if r2 < 0.8:
            return ["mark", rng.randrange(10)]
        if r2 < 0.84:
            return ["raise", rng.randrange(20, 25)]
        if r2 < 0.87:
            return ["cancelup", rng.randrange(0, 3)]
        if r2 < 0.9:
            return ["raisebase", rng.randrange(30, 33)]
        if r2 < 0.94 and fresh is None:
            return ["returnvalue", rng.randrange(60, 65)]
        return ["return", rng.randrange(40, 45)]
    if r < 0.6:
        return ["seq", _rand_stmt(rng, depth - 1, nd, fresh), _rand_stmt(rng, depth - 1, nd, fresh)]
    if r < 0.75:
        return ["try", _rand_stmt(rng, depth - 1, nd, fresh), _rand_stmt(rng, depth - 1, nd, fresh)]
    if r < 0.85:
        return ["finally", _rand_stmt(rng, depth - 1, nd, fresh), _rand_stmt(rng, depth - 1, nd, fresh)]
    if r < 0.93:
        return ["call", _rand_stmt(rng, depth - 1, nd, fresh)]
    return ["loop", rng.randrange(0, 4), _rand_stmt(rng, depth - 1, nd, fresh)]


def _awaits(s):
    if s[0] == "await":
        return [s[1]]
    out = []
    for x in s[1:]:
        if isinstance(x, list):
            out += _awaits(x)
    return out


def _rand_canc(rng):
    r = rng.random()
    return (["nothing"] if r < 0.6 else ["succeed", rng.randrange(50, 60)] if r < 0.8
            else ["fail", rng.randrange(7, 9)] if r < 0.9 else ["failsub", rng.randrange(7, 9)])


def _rand_chain(rng, canc):
    r = rng.random()
    ch = "none" if r < 0.55 else "plus" if r < 0.75 else "recover" if r < 0.88 else "inner"
    if ch == "inner" and canc[0] == "succeed":      # a cancelled unfired Deferred would hand back a pending inner one
        ch = "plus"
    return ch


def _with_holds(rng, case, p=0.5):
    """own chains for the Deferreds, and some of them fired while paused ahead of the point where they deliver"""
    n = len(case["outs"])
    case["chains"] = [_rand_chain(rng, case["cancs"][d]) for d in range(n)]
    if rng.random() < p:
        unf = [d for d in range(n) if d not in case["pre"]]
        rng.shuffle(unf)
        for d in unf[:rng.choice([1, 1, 2])]:
            if rng.random() < 0.5:
                case.setdefault("prehold", []).append(d)
            else:
                sched = case["sched"]
                k = next((i for i, o in enumerate(sched) if o == ["fire", d]), len(sched))
                sched.insert(rng.randrange(k + 1), ["hold", d])
    return case


def _fail_out(rng, d):
    return ["errsub", d] if rng.random() < 0.35 else ["err", d]


def gen(rng, tier):
    cases = []
    # every arrival order x every pre-fired prefix for small programs, with a cancellation injected at every point
    small = [
        ["seq", ["await", 0], ["seq", ["await", 1], ["return", 1]]],
        ["try", ["seq", ["await", 0], ["await", 1]], ["await", 2]],
        ["finally", ["seq", ["await", 0], ["raise", 9]], ["seq", ["await", 1], ["mark", 1]]],
        ["seq", ["loop", 2, ["await", 0]], ["await", 1]],
        ["finally", ["try", ["await", 0], ["return", 4]], ["seq", ["await", 1], ["return", 5]]],
        ["seq", ["try", ["await", 0], ["await", 1]], ["seq", ["yield", 7], ["await", 2]]],
        ["try", ["call", ["seq", ["await", 0], ["seq", ["await", 1], ["returnvalue", 9]]]], ["await", 2]],
        ["finally", ["call", ["finally", ["call", ["await", 0]], ["await", 1]]], ["mark", 3]],
        ["try", ["seq", ["await", 0], ["try", ["call", ["seq", ["await", 1], ["raisebase", 31]]], ["mark", 4]]], ["mark", 5]],
        # cancelled from inside while running: the outer call / its own, then return, raise, or suspend again
        ["try", ["seq", ["call", ["seq", ["await", 0], ["seq", ["cancelup", 1], ["return", 5]]]], ["await", 1]], ["mark", 6]],
        ["seq", ["try", ["call", ["seq", ["await", 0], ["seq", ["cancelup", 0], ["raise", 9]]]], ["mark", 1]],
         ["seq", ["await", 1], ["seq", ["cancelup", 0], ["return", 3]]]],
        ["call", ["call", ["seq", ["await", 0], ["seq", ["cancelup", 2], ["seq", ["await", 1], ["cancelup", 1]]]]]],
        # shared awaitables: the same Deferred awaited several times / by several functions
        ["seq", ["loop", 3, ["try", ["await", 0], ["mark", 1]]], ["await", 1]],
        ["seq", ["try", ["call", ["await", 0]], ["mark", 1]], ["seq", ["try", ["call", ["await", 0]], ["mark", 2]], ["await", 0]]],
        ["seq", ["await", 0], ["seq", ["await", 0], ["seq", ["await", 1], ["try", ["await", 0], ["await", 1]]]]],
    ]
    for body in small:
        ds = sorted(set(_awaits(body)))
        for outs in itertools.product((True, False), repeat=len(ds)):
            for perm in itertools.permutations(ds):
                for npre in range(len(ds) + 1):
                    for nlast in (len(ds), len(ds) - 1):
                        base = [["fire", d] for d in perm[npre:nlast]]
                        scheds = [base] + [base[:k] + [["cancel"]] + base[k:] for k in range(len(base) + 1)]
                        scheds.append([["cancel"]] + base[:1] + [["cancel"]] + base[1:])
                        for sched in scheds:
                            if rng.random() > (0.15 if tier == "quick" else 0.6):
                                continue
                            coro_ok = not any(t in str(body) for t in ("'yield'", "'returnvalue'"))
                            cases.append(_with_holds(rng, {
                                "variant": "coro" if coro_ok and rng.random() < 0.4 else "gen", "body": body,
                                "outs": [["ok", 10 + d] if outs[d] else _fail_out(rng, d) for d in range(len(ds))],
                                "cancs": [_rand_canc(rng) for _ in ds],
                                "dsub": [rng.random() < 0.3 for _ in ds],
                                "pre": list(perm[:npre]), "sched": [list(o) for o in sched]}, 0.35))
    for _ in range(350 if tier == "quick" else 4000):
        variant = "gen" if rng.random() < 0.6 else "coro"
        nd = rng.randrange(1, 11)
        fresh = [] if variant == "coro" else None
        body = _rand_stmt(rng, rng.randrange(1, 5), nd, fresh)
        outs = [["ok", 10 + d] if rng.random() < 0.65 else _fail_out(rng, d) for d in range(nd)]
        order = list(range(nd))
        rng.shuffle(order)
        npre = rng.randrange(nd + 1)
        keep = nd if rng.random() < 0.8 else rng.randrange(npre, nd + 1)
        sched = [["fire", d] for d in order[npre:keep]]
        if rng.random() < 0.6:
            for _ in range(rng.choice([1, 1, 2, 3])):
                sched.insert(rng.randrange(len(sched) + 1), ["cancel"])
        cases.append(_with_holds(rng, {"variant": variant, "body": body, "outs": outs,
                                       "cancs": [_rand_canc(rng) for _ in range(nd)],
                                       "dsub": [rng.random() < 0.3 for _ in range(nd)], "pre": order[:npre],
                                       "sched": sched}))
    return cases


def corpus():
    return [
        # a NESTED coroutine is suspended on D[0]; cancel -> D[0]'s canceller fires it; the outer coroutine, resumed only
        # after the cancel call has unwound, awaits D[0] again: it has lost its result by then
        {"variant": "coro", "body": ["seq", ["try", ["call", ["await", 0]], ["mark", 2]], ["await", 0]], "outs": [["err", 0]],
         "cancs": [["succeed", 58]], "dsub": [False], "pre": [], "sched": [["cancel"]], "chains": ["none"]},
        {"variant": "coro", "body": ["seq", ["try", ["call", ["call", ["await", 0]]], ["mark", 2]], ["await", 0]],
         "outs": [["ok", 10]], "cancs": [["nothing"]], "dsub": [False], "pre": [], "sched": [["cancel"], ["fire", 0], ["cancel"]],
         "chains": ["plus"]},
        # shared awaitables: a Deferred that had already failed awaited more than once (retry loop; two nested functions
        # sharing it), a pre-fired success awaited twice, a Deferred re-awaited after the function suspended again
        {"variant": "coro", "body": ["loop", 3, ["try", ["await", 0], ["mark", 1]]], "outs": [["err", 4]],
         "cancs": [["nothing"]], "chains": ["none"], "dsub": [False], "pre": [0], "sched": []},
        {"variant": "coro", "body": ["seq", ["try", ["call", ["await", 0]], ["mark", 1]],
                                     ["seq", ["try", ["call", ["await", 0]], ["mark", 2]], ["return", 3]]],
         "outs": [["errsub", 4]], "cancs": [["nothing"]], "chains": ["none"], "dsub": [True], "pre": [0], "sched": []},
        {"variant": "gen", "body": ["loop", 2, ["try", ["await", 0], ["mark", 1]]], "outs": [["err", 4]],
         "cancs": [["nothing"]], "chains": ["none"], "dsub": [False], "pre": [0], "sched": []},
        {"variant": "coro", "body": ["seq", ["await", 0], ["seq", ["await", 0], ["seq", ["await", 1], ["await", 0]]]],
         "outs": [["ok", 10], ["ok", 11]], "cancs": [["nothing"], ["nothing"]], "chains": ["plus", "none"],
         "dsub": [False, False], "pre": [], "sched": [["fire", 0], ["fire", 1]]},
        {"variant": "coro", "body": ["seq", ["await", 0], ["seq", ["await", 1], ["await", 0]]],
         "outs": [["ok", 10], ["ok", 11]], "cancs": [["nothing"], ["nothing"]], "chains": ["none", "none"],
         "dsub": [False, False], "pre": [1], "sched": [["fire", 0]]},
        # cancel while RUNNING: the inner coroutine / generator, just resumed, cancels the outer Deferred and finishes
        {"variant": "coro", "body": ["try", ["seq", ["call", ["seq", ["await", 0], ["seq", ["cancelup", 1], ["raise", 21]]]],
                                                ["mark", 1]], ["await", 1]],
         "outs": [["ok", 10], ["ok", 11]], "cancs": [["nothing"], ["nothing"]], "chains": ["none", "none"],
         "dsub": [False, False], "pre": [], "sched": [["fire", 0], ["fire", 1]]},
        {"variant": "gen", "body": ["seq", ["call", ["seq", ["await", 0], ["seq", ["cancelup", 1], ["return", 5]]]], ["return", 6]],
         "outs": [["ok", 10]], "cancs": [["nothing"]], "chains": ["none"], "dsub": [False], "pre": [], "sched": [["fire", 0]]},
        {"variant": "coro", "body": ["seq", ["await", 0], ["seq", ["cancelup", 0], ["return", 5]]],
         "outs": [["ok", 10]], "cancs": [["nothing"]], "chains": ["plus"], "dsub": [False], "pre": [], "sched": [["fire", 0]]},
        # awaited Deferreds with their own chain, fired while pause()d and unpaused later (coroutine and generator)
        {"variant": "coro", "body": ["seq", ["await", 0], ["return", 1]], "outs": [["ok", 10]], "cancs": [["nothing"]],
         "chains": ["plus"], "dsub": [False], "pre": [], "prehold": [0], "sched": [["cancel"], ["fire", 0]]},
        {"variant": "coro", "body": ["try", ["seq", ["await", 0], ["await", 1]], ["mark", 2]],
         "outs": [["ok", 10], ["err", 1]], "cancs": [["nothing"], ["nothing"]], "chains": ["none", "recover"],
         "dsub": [False, False], "pre": [], "sched": [["hold", 1], ["fire", 0], ["fire", 1]]},
        {"variant": "gen", "body": ["try", ["await", 0], ["mark", 2]], "outs": [["err", 0]], "cancs": [["nothing"]],
         "chains": ["plus"], "dsub": [True], "pre": [], "prehold": [0], "sched": [["fire", 0]]},
        {"variant": "coro", "body": ["try", ["call", ["await", 0]], ["await", 1]], "outs": [["ok", 10], ["ok", 11]],
         "cancs": [["fail", 7], ["nothing"]], "chains": ["inner", "plus"], "dsub": [False, False], "pre": [],
         "sched": [["hold", 0], ["hold", 1], ["cancel"], ["cancel"], ["fire", 1]]},
        # an awaited Deferred fails with an instance of a Failure subclass: handled / unhandled, fired later / before
        {"variant": "gen", "body": ["try", ["await", 0], ["mark", 1]], "outs": [["errsub", 0]], "cancs": [["nothing"]],
         "dsub": [False], "pre": [], "sched": [["fire", 0]]},
        {"variant": "gen", "body": ["seq", ["await", 0], ["return", 1]], "outs": [["errsub", 0]], "cancs": [["nothing"]],
         "dsub": [True], "pre": [0], "sched": []},
        {"variant": "coro", "body": ["try", ["await", 0], ["mark", 1]], "outs": [["ok", 1]], "cancs": [["failsub", 7]],
         "dsub": [False], "pre": [], "sched": [["cancel"]]},
        {"variant": "gen", "body": ["seq", ["try", ["await", 0], ["mark", 7]],
                                     ["finally", ["try", ["loop", 2, ["await", 1]], ["mark", 8]], ["seq", ["await", 2], ["return", 5]]]],
         "outs": [["err", 3], ["ok", 1], ["ok", 2]], "cancs": [["nothing"]] * 3, "pre": [2],
         "sched": [["fire", 0], ["cancel"], ["fire", 1]]},
        {"variant": "coro", "body": ["finally", ["seq", ["await", 0], ["raise", 21]], ["await", 1]],
         "outs": [["ok", 10], ["err", 1]], "cancs": [["succeed", 55], ["fail", 8]], "pre": [],
         "sched": [["cancel"], ["cancel"], ["fire", 0], ["fire", 1]]},
        {"variant": "gen", "body": ["seq", ["await", 0], ["await", 0]], "outs": [["ok", 10]], "cancs": [["nothing"]],
         "pre": [], "sched": [["fire", 0]]},
        {"variant": "gen", "body": ["try", ["await", 0], ["try", ["await", 1], ["await", 2]]],
         "outs": [["ok", 10], ["ok", 11], ["ok", 12]], "cancs": [["nothing"], ["fail", 7], ["succeed", 5]], "pre": [],
         "sched": [["cancel"], ["cancel"], ["cancel"], ["cancel"]]},
    ]


def _stmt_coq(s):
    k = s[0]
    if k == "await":
        return f"(SAwait {s[1]})"
    if k == "yield":
        return f"(SYield ({s[1]})%Z)"
    if k == "mark":
        return f"(SMark {s[1]})"
    if k == "raise":
        return f"(SRaise {s[1]})"
    if k == "raisebase":
        return f"(SRaiseBase {s[1]})"
    if k == "return":
        return f"(SReturn ({s[1]})%Z)"
    if k == "loop":
        return f"(SLoop {s[1]} {_stmt_coq(s[2])})"
    if k == "returnvalue":
        return f"(SReturnValue ({s[1]})%Z)"
    if k == "call":
        return f"(SCall {_stmt_coq(s[1])})"
    if k == "cancelup":
        return f"(SCancelUp {s[1]})"
    name = {"seq": "SSeq", "try": "STry", "finally": "SFinally"}[k]
    return f"({name} {_stmt_coq(s[1])} {_stmt_coq(s[2])})"


def to_coq(case):
    def out(o):
        return f"(Val (VInt ({o[1]})%Z))" if o[0] == "ok" else f"(Exc (EUser {o[1][1:]}))"

    def canc(o):
        return f"(CSucceed ({o[1]})%Z)" if o[0] == "ok" else "CNothing" if o[1] == "X" else f"(CFail {o[1][1:]})"

    chains = _chains(case)
    ds = coq_list([f"({out(own)}, {canc(c)})" for own, c in _delivered(case)], "(outcome * cbeh)")
    pre, hold0, sched = list(case["pre"]), [], []

    def hold_to(d, before):
        # pause()+fire: held; chain "inner": nothing is delivered (ok: the inner Deferred is pending) or the failure at once
        if d >= len(chains):
            return
        if chains[d] != "inner":
            (hold0 if before else sched).append(d if before else f"SHold {d}")
        elif case["outs"][d][0] != "ok":
            (pre if before else sched).append(d if before else f"SFire {d}")

    for d in case.get("prehold", []):
        if d not in case["pre"]:
            hold_to(d, True)
    for o in case["sched"]:
        if o[0] == "cancel":
            sched.append("SCancel")
        elif o[0] == "fire":
            sched.append(f"SFire {o[1]}")
        else:
            hold_to(o[1], False)
    return (f"({'true' if case['variant'] == 'coro' else 'false'}, {_stmt_coq(case['body'])}, {ds}, "
            f"{coq_list(map(str, pre), 'nat')}, {coq_list(map(str, hold0), 'nat')}, "
            f"{coq_list(sched, 'sop')})")


def model_equal(case, a, b):
    # the model names the Deferred it is suspended on; the implementation's observation cannot
    return a == b or (a.endswith("| S") and b.rsplit(":", 1)[0].endswith("| S") and a[:-1] == b.rsplit(":", 1)[0][:-1])


def shrink(case):
    s = case["body"]
    for x in s[1:]:
        if isinstance(x, list):
            yield {**case, "body": x}
    if case["sched"]:
        yield {**case, "sched": case["sched"][:-1]}
    for i, o in enumerate(case["sched"]):
        if o[0] in ("cancel", "hold"):
            yield {**case, "sched": case["sched"][:i] + case["sched"][i + 1:]}
    if any(c != "none" for c in _chains(case)):
        yield {**case, "chains": ["none"] * len(case["outs"])}
    if case["pre"]:
        yield {**case, "pre": case["pre"][:-1], "sched": [["fire", case["pre"][-1]]] + case["sched"]}


SPEC = Spec(
    pid="C05",
    gen=gen, impl=impl, oracle=oracle, corpus=corpus, shrink=shrink,
    coq_header="From C05 Require Import Model Run.",
    coq_fn="run_show",
    to_coq=to_coq,
    model_equal=model_equal,
    nontrivial=lambda c, o: len(_awaits(c["body"])) >= 2 and "R:" in o,
    histogram=lambda c, o: c["variant"] + (" finished" if "R:" in o else " suspended"),
    describe=lambda c: {**c, "source": source(c["body"], c["variant"])},
    rule="eight small programs (two with nested inlineCallbacks calls and returnValue) x every success/failure assignment x every arrival order x every pre-fired prefix (with and "
         "without the last Deferred firing) x {no cancellation, cancel() of the returned Deferred injected at every "
         "position, two cancellations} with random canceller behaviour per Deferred, as generators (quick: 15% sample, "
         "thorough 60%); 350 (quick) / 4000 (thorough) random "
         "structured programs of depth <= 4 (await, plain yield, mark, raise, return, returnValue, seq, try/except, "
         "try/finally, loops, nested calls, cancel of an enclosing call's Deferred from inside the running function) over up to 10 Deferreds, 60% as @inlineCallbacks generators, 40% as coroutines under ensureDeferred "
         "(Deferreds are shared in both variants: awaited at several points and by several nested functions), random pre-fired subset and arrival order, 60% with 1-3 cancellations at random "
         "positions; non-trivial = at least two awaits and "
         "the function ran to completion; distinct by (case, observation)",
    trusted=["hand-written model coq/C05/Model.v (driver loop transcription; tied by this correspondence run only)",
             "ORACLE: CPython's generator/coroutine objects implement the send/throw/StopIteration protocol as given by "
             "Model.denote (PEP 342/492); exercised by the correspondence run, not proved",
             "the harness prints the case's program as Python source and exec()s it"],
    assumptions=["Deferred callbacks run synchronously in order (C01); a Deferred awaited once holds None afterwards",
                 "a Deferred a coroutine was suspended on holds None once the coroutine has suspended again or finished "
                 "(the driver's callback returned): re-awaiting it then gives None — modelled and in the oracle's reference, "
                 "flagged by the model's ghost `stale`; it is the one case the theorem for coroutines excludes",
                 "the chain returned Deferred -> fresh status.deferred created by each cancellation is abstracted to "
                 "'the result' in the model; the correspondence run observes the real chain through the user's callback"],
)
