"""C53 — rotating log files lose and reorder nothing: H-tie.

The REAL ``twisted.python.logfile.LogFile`` works on a scratch directory made with ``tempfile.mkdtemp``
(outside /repo and /verif, removed after each case).  A crash inside ``rotate()`` is injected by replacing
the module attribute ``logfile.os`` with a proxy whose ``rename``/``remove`` raise after a budget of k calls;
the interrupted object is abandoned and a new ``LogFile`` is made on the same directory (= restart).

case = {"rl": int|None, "max": int|None, "rot0": [[idx, hex], ...] (descending idx), "cur0": hex|None,
        "ops": [["w", hex] | ["t", text] | ["rot"] | ["reopen"] | ["extmove"] | ["crot", k] | ["cw", k, "w"|"t", data]],
        "name": optional log name relative to the directory (default "t.log"): may carry a sub-directory, glob
                metacharacters, spaces, non-ASCII}
A crash budget k counts EVERY directory-mutating call made through ``logfile.os`` (and every open-for-write of
anything but the current log); calls the model does not know (link, unlink, replace, ...) are also recorded in the
observation (``?link+unlink``), which breaks the correspondence.
``extmove`` = an outside tool renames the current file out of the directory, then ``reopen()`` (its documented use).
"""
from __future__ import annotations

import os
import shutil
import tempfile

from harness.common import Failure, Spec, coq_bytes, coq_list, coq_option

NAME = "t.log"
NAMES = ["sub/t.log", "a[1].log", "a*.log", "a?.log", "x[ab]y.log", "sp ace.log", "na\u00efve.log", "we[b/acc.log"]


class _Crash(BaseException):
    pass


class _OsProxy:
    """stands in for the ``os`` module inside logfile.py.  Every directory-mutating call is a crash point: the
    calls the model knows (``rename``/``remove``: the steps of rotate()) count against the crash budget; any other
    mutating call (link, unlink, replace, symlink, truncate, mkdir, rmdir, ...) ALSO counts against the budget and is
    recorded in the observation, which breaks the correspondence (the model has no such step)."""

    UNKNOWN = ("replace", "unlink", "link", "symlink", "truncate", "ftruncate", "mkdir", "makedirs", "rmdir",
               "removedirs", "renames", "mkfifo", "mknod")

    def __init__(self, real):
        self._real = real
        self.budget = None
        self.unknown = []

    def __getattr__(self, k):
        v = getattr(self._real, k)
        if k in self.UNKNOWN:
            def traced(*a, **kw):
                self.unknown.append(k)
                self._tick()
                return v(*a, **kw)
            return traced
        return v

    def _tick(self):
        if self.budget is not None:
            if self.budget == 0:
                raise _Crash()
            self.budget -= 1

    def rename(self, a, b):
        self._tick()
        return self._real.rename(a, b)

    def remove(self, a):
        self._tick()
        return self._real.remove(a)


def _snapshot(d, lf, name=NAME):
    rot, cur = [], None
    d, base = os.path.split(os.path.join(d, name))
    for fn in os.listdir(d):
        with open(os.path.join(d, fn), "rb") as f:
            data = f.read()
        if fn == base:
            cur = data
        elif fn.startswith(base + ".") and fn[len(base) + 1:].isdigit():
            rot.append((int(fn[len(base) + 1:]), data))
        else:
            rot.append((-1, fn.encode()))        # a stray file: shows up in the observation
    rot.sort(key=lambda e: -e[0])
    return rot, cur, lf.size


def _full(snap):
    rot, cur, size = snap
    return ("[" + ",".join(f"{i}:{c.hex()}" for i, c in rot) + "|" + ("ABSENT" if cur is None else cur.hex())
            + "|" + str(size) + "]")


def _short(snap):
    rot, cur, size = snap
    return ("[" + ",".join(f"{i}.{len(c)}" for i, c in rot) + "|" + ("ABSENT" if cur is None else str(len(cur)))
            + "|" + str(size) + "]")


def impl(case) -> str:
    from twisted.python import logfile

    d = tempfile.mkdtemp(prefix="verif_c53_")
    real_os = logfile.os
    proxy = _OsProxy(real_os)
    out = []
    lf = None
    moved = 0
    name = case.get("name") or NAME
    path = os.path.join(d, name)
    had_open = "open" in vars(logfile)
    saved_open = vars(logfile).get("open")

    def traced_open(file, mode="r", *a, **kw):
        # the only file logfile.py opens for writing is the current log; anything else is a step the model lacks
        if any(c in mode for c in "wax+") and os.path.abspath(file) != os.path.abspath(path):
            proxy.unknown.append("open:" + os.path.basename(str(file)))
            proxy._tick()
        return open(file, mode, *a, **kw)

    try:
        os.makedirs(os.path.dirname(path), exist_ok=True)
        for i, h in case["rot0"]:
            with open(f"{path}.{i}", "wb") as f:
                f.write(bytes.fromhex(h))
        if case["cur0"] is not None:
            with open(path, "wb") as f:
                f.write(bytes.fromhex(case["cur0"]))
        logfile.os = proxy
        logfile.open = traced_open

        def make():
            return logfile.LogFile(name, d, rotateLength=case["rl"], maxRotatedFiles=case["max"])

        lf = make()
        for op in case["ops"]:
            crashed = False
            del proxy.unknown[:]
            if op[0] == "w":
                lf.write(bytes.fromhex(op[1]))
            elif op[0] == "t":
                lf.write(op[1])
            elif op[0] == "rot":
                lf.rotate()
            elif op[0] == "reopen":
                lf.reopen()
            elif op[0] == "extmove":
                # an external rotation tool takes the current file away; reopen() is the documented response
                moved += 1
                os.makedirs(d + "_moved", exist_ok=True)
                os.rename(path, os.path.join(d + "_moved", str(moved)))
                lf.reopen()
            elif op[0] in ("crot", "cw"):
                proxy.budget = op[1]
                try:
                    if op[0] == "crot":
                        lf.rotate()
                    else:
                        lf.write(bytes.fromhex(op[3]) if op[2] == "w" else op[3])
                except _Crash:
                    crashed = True
                finally:
                    proxy.budget = None
                if crashed or op[0] == "crot":
                    # the process is gone (or, for an uninterrupted crot, is restarted anyway): new object
                    try:
                        lf.close()
                    except Exception:
                        pass
                    lf = make()
            else:
                raise ValueError(op)
            mark = "!" if crashed or op[0] == "crot" else ""
            if proxy.unknown:
                mark += "?" + "+".join(proxy.unknown)
            out.append((mark, _snapshot(d, lf, name)))
        initial = _snapshot(d, lf, name) if not case["ops"] else None
    finally:
        logfile.os = real_os
        if had_open:
            logfile.open = saved_open
        elif "open" in vars(logfile):
            del logfile.open
        try:
            if lf is not None:
                lf.close()
        except Exception:
            pass
        shutil.rmtree(d, ignore_errors=True)
        shutil.rmtree(d + "_moved", ignore_errors=True)
    # compared with the model: lengths after every operation + full final contents;
    # for the oracle (after " || "): full contents after every operation
    final = out[-1][1] if out else initial
    return (" ".join(m + _short(s) for m, s in out) + " # " + _full(final)
            + " || " + " ".join(m + _full(s) for m, s in out))


def model_equal(case, a, b):
    return a.split(" || ")[0] == b


# --------------------------------------------------------------------------------------------------
# the property on the implementation's observations (no model of the code: plain byte bookkeeping)


def _parse(snap):
    body = snap[snap.index("["):][1:-1]
    rot_s, cur_s, size_s = body.split("|")
    rot = []
    for e in rot_s.split(",") if rot_s else []:
        i, h = e.split(":")
        rot.append((int(i), bytes.fromhex(h)))
    return rot, (None if cur_s == "ABSENT" else bytes.fromhex(cur_s)), int(size_s)


def _data(op):
    if op[0] == "w":
        return bytes.fromhex(op[1])
    if op[0] == "t":
        return op[1].encode("utf8")
    if op[0] == "cw":
        return bytes.fromhex(op[3]) if op[2] == "w" else op[3].encode("utf8")
    return b""


def oracle(case, obs):
    full = obs.split(" || ", 1)[1] if " || " in obs else ""
    snaps = full.split(" ") if full else []
    if len(snaps) != len(case["ops"]):
        return Failure(case, "malformed observation", "trace")
    rl, mx = case["rl"], case["max"]
    written = b"".join(bytes.fromhex(h) for _, h in case["rot0"]) + bytes.fromhex(case["cur0"] or "")
    prev_rot = [(i, bytes.fromhex(h)) for i, h in case["rot0"]]
    prev_cur = bytes.fromhex(case["cur0"] or "")
    crashes = 0
    for k, (op, snap) in enumerate(zip(case["ops"], snaps)):
        where = f"op {k} {op}: "
        rot, cur, _size = _parse(snap)
        crashed = snap.startswith("!")
        crashes += crashed
        if cur is None:
            return Failure(case, where + "no current log file after the operation", "current-missing")
        idx = [i for i, _ in rot]
        if any(i < 1 for i in idx) or len(set(idx)) != len(idx):
            return Failure(case, where + f"stray or duplicate files {idx}", "stray-file")
        # did the bytes of this write reach the file?  (a write killed inside rotate() wrote nothing)
        if op[0] in ("w", "t") or (op[0] == "cw" and not crashed):
            written += _data(op)
        if op[0] == "extmove":
            # what the outside tool took is outside the statement: the numbered files are the new baseline
            written = b"".join(c for _, c in prev_rot)
            if cur != b"" or rot != prev_rot:
                return Failure(case, where + "after the current file was moved away and reopen(), the directory is not "
                               "the numbered files plus a fresh empty current file", "reopen-after-move")
        on_disk = b"".join(c for _, c in rot) + cur
        if not written.endswith(on_disk):
            return Failure(case, where + "rotated files (oldest first) + current file are not a suffix of what was "
                           f"written: disk={on_disk.hex()} written={written.hex()}",
                           "crash-reorder-or-loss" if crashes else "reorder-or-loss")
        if mx is None and on_disk != written:
            return Failure(case, where + "data lost without a retention count: "
                           f"disk={on_disk.hex()} written={written.hex()}",
                           "crash-loss-no-retention" if crashes else "loss-no-retention")
        # did a rotation complete in this operation?
        if op[0] == "rot":
            rotated_now = True
        elif op[0] == "crot":
            rotated_now = op[1] > len(prev_rot)          # all remove/rename calls were made
        elif op[0] in ("w", "t") or (op[0] == "cw" and not crashed):
            rotated_now = rot != prev_rot                # a write changes the numbered files only by rotating
        else:
            rotated_now = False
        if rotated_now:
            if op[0] in ("w", "t", "cw") and not rl:
                return Failure(case, where + "automatic rotation although rotateLength disables it", "rotated-while-disabled")
            if op[0] in ("w", "t", "cw") and rl and len(prev_cur) < rl:
                return Failure(case, where + f"a file of {len(prev_cur)} bytes was rotated automatically, "
                               f"rotateLength={rl}", "rotated-too-small")
            if mx is not None:
                limit = max(mx, 1)
                if len(rot) > limit:
                    return Failure(case, where + f"{len(rot)} rotated files kept, maxRotatedFiles={mx}", "retention-exceeded")
                # exactly the newest: nothing beyond the limit may be dropped (no crash so far, contiguous start)
                want = min(limit, len(prev_rot) + 1)
                if crashes == 0 and _contig(case) and len(rot) != want:
                    return Failure(case, where + f"{len(rot)} rotated files kept, expected {want} "
                                   f"(maxRotatedFiles={mx})", "retention-dropped-too-many")
        prev_rot, prev_cur = rot, cur
    return None


def _contig(case):
    idx = [i for i, _ in case["rot0"]]
    return idx == list(range(len(idx), 0, -1))


# --------------------------------------------------------------------------------------------------
# cases

TEXTS = ["a", "bc", "é", "€", "日本", "x€y", "\U0001f600", "añb", "", "zzzz"]


def _rand_bytes(rng, n):
    return bytes(rng.randrange(97, 123) for _ in range(n)).hex()


def gen_case(rng, crash=True, big=False):
    rl = rng.choice([None, 0, 1, 2, 3, 4, 5, 8] if not big else [7, 16, 33])
    mx = rng.choice([None, None, 0, 1, 2, 3])
    nrot = rng.choice([0, 0, 0, 1, 2, 3, 4])
    if rng.random() < 0.2:
        idx = sorted(rng.sample(range(1, 8), nrot), reverse=True)      # gaps (as a crash leaves them)
    else:
        idx = list(range(nrot, 0, -1))
    rot0 = [[i, _rand_bytes(rng, rng.randrange(0, 4))] for i in idx]
    cur0 = rng.choice([None, "", _rand_bytes(rng, rng.randrange(1, 6))])
    ops = []
    for _ in range(rng.randrange(1, 14 if not big else 40)):
        r = rng.random()
        if r < 0.45:
            ops.append(["w", _rand_bytes(rng, rng.randrange(0, 5 if not big else 12))])
        elif r < 0.70:
            ops.append(["t", rng.choice(TEXTS) if rng.random() < 0.8 else
                        "".join(rng.choice("ab€é日\U0001f600") for _ in range(rng.randrange(0, 5)))])
        elif r < 0.78:
            ops.append(["rot"])
        elif r < 0.83:
            ops.append(["reopen"])
        elif r < 0.86:
            ops.append(["extmove"])
        elif not crash:
            ops.append(["w", _rand_bytes(rng, 2)])
        elif r < 0.93:
            ops.append(["crot", rng.randrange(0, 6)])
        else:
            t = rng.random() < 0.4
            ops.append(["cw", rng.randrange(0, 5), "t" if t else "w",
                        rng.choice(TEXTS) if t else _rand_bytes(rng, rng.randrange(0, 4))])
    return {"rl": rl, "max": mx, "rot0": rot0, "cur0": cur0, "ops": ops}


def gen(rng, tier):
    quick = tier == "quick"
    cases = []
    # crash at every step of every rotation of a fixed scenario family: k files present, every k' <= k+1
    for nrot in range(0, 5):
        for mx in (None, 0, 1, 2, 3):
            for k in range(0, nrot + 3):
                rot0 = [[i, bytes([96 + i]).hex() * 2] for i in range(nrot, 0, -1)]
                for first in (["crot", k], ["cw", k, "w", "7a7a"]):
                    cases.append({"rl": 2, "max": mx, "rot0": rot0, "cur0": "6363",
                                  "ops": [first, ["w", "6464"], ["t", "€"], ["w", "65"], ["rot"]]})
    # fill the file to about rotateLength, an outside tool moves it away, reopen(), write again
    for rl in (1, 2, 3, 5):
        for fill in range(0, rl + 3):
            for mx in (None, 1):
                cases.append({"rl": rl, "max": mx, "rot0": [], "cur0": None,
                              "ops": [["w", "61" * fill], ["extmove"], ["w", "62"], ["t", "\u20ac"], ["w", "6363"], ["w", "64"]]})
    # the log's name: a sub-directory component, glob metacharacters, spaces, non-ASCII
    for name in NAMES:
        for mx in (None, 2):
            cases.append({"rl": 2, "max": mx, "rot0": [], "cur0": None, "name": name,
                          "ops": [["w", "6161"], ["w", "6262"], ["w", "6363"], ["t", "\u20ac"], ["w", "6464"], ["rot"],
                                  ["w", "65"]]})
            cases.append({"rl": 2, "max": mx, "rot0": [[2, "78"], [1, "79"]], "cur0": "7a7a", "name": name,
                          "ops": [["crot", 1], ["w", "6161"], ["w", "6262"], ["reopen"], ["w", "6363"]]})
    for _ in range(700 if quick else 7000):
        c = gen_case(rng)
        if rng.random() < 0.25:
            c["name"] = rng.choice(NAMES)
        cases.append(c)
    for _ in range(150 if quick else 1500):
        cases.append(gen_case(rng, crash=False))
    for _ in range(30 if quick else 300):
        cases.append(gen_case(rng, big=True))
    return cases


def corpus():
    return [
        # characters vs bytes: 1 char / 3 bytes; rotation is late, never early
        {"rl": 3, "max": None, "rot0": [], "cur0": None, "ops": [["t", "€"], ["t", "€"], ["t", "€"], ["t", "€"], ["w", "61"]]},
        # retention 2 over many rotations
        {"rl": 1, "max": 2, "rot0": [], "cur0": None, "ops": [["w", "61"], ["w", "62"], ["w", "63"], ["w", "64"], ["w", "65"]]},
        # maxRotatedFiles=0 keeps one file
        {"rl": 1, "max": 0, "rot0": [], "cur0": None, "ops": [["w", "61"], ["w", "62"], ["w", "63"]]},
        # crash in the middle of shifting three files, then carry on
        {"rl": 2, "max": None, "rot0": [[3, "61"], [2, "62"], [1, "63"]], "cur0": "6464",
         "ops": [["crot", 2], ["w", "65"], ["w", "66"], ["rot"]]},
        # reopen turns the character count into the byte count
        {"rl": 4, "max": None, "rot0": [], "cur0": None, "ops": [["t", "日本"], ["reopen"], ["w", "61"], ["w", "62"]]},
        # more files present than the retention count
        {"rl": 2, "max": 1, "rot0": [[4, "61"], [3, "62"], [2, "63"], [1, "64"]], "cur0": "6565", "ops": [["w", "66"], ["w", "6767"], ["w", "68"]]},
    ]


def to_coq(case):
    nat = lambda v: f"{v}%nat"
    by = lambda h: coq_bytes(bytes.fromhex(h))

    def op(o):
        if o[0] == "w":
            b = bytes.fromhex(o[1])
            return f"Write {nat(len(b))} {coq_bytes(b)}"
        if o[0] == "t":
            return f"Write {nat(len(o[1]))} {coq_bytes(o[1].encode('utf8'))}"
        if o[0] == "rot":
            return "Rotate"
        if o[0] == "reopen":
            return "Reopen"
        if o[0] == "extmove":
            return "ExtMove"
        if o[0] == "crot":
            return f"CrashRotate {nat(o[1])}"
        n, b = (len(bytes.fromhex(o[3])), bytes.fromhex(o[3])) if o[2] == "w" else (len(o[3]), o[3].encode("utf8"))
        return f"CrashWrite {nat(o[1])} {nat(n)} {coq_bytes(b)}"

    rot0 = coq_list((f"({nat(i)}, {by(h)})" for i, h in case["rot0"]), "entry")
    return (f"({nat(case['rl'] or 0)}, {coq_option(None if case['max'] is None else nat(case['max']), 'nat')}, "
            f"({rot0}, {by(case['cur0'] or '')}), {coq_list(map(op, case['ops']), 'op')})")


def shrink(case):
    ops = case["ops"]
    for i in range(len(ops)):
        yield {**case, "ops": ops[:i] + ops[i + 1:]}
    for i in range(len(case["rot0"])):
        yield {**case, "rot0": case["rot0"][:i] + case["rot0"][i + 1:]}


SPEC = Spec(
    pid="C53",
    gen=gen, impl=impl, oracle=oracle, corpus=corpus, shrink=shrink,
    coq_header="From C53 Require Import Model Run.",
    coq_fn="run_show",
    to_coq=to_coq,
    model_equal=model_equal,
    nontrivial=lambda c, o: o.count(":") >= 2,
    histogram=lambda c, o: (f"rl={'off' if not c['rl'] else 'on'} max={c['max']} crash={'y' if '!' in o else 'n'}"
                            + (" named" if c.get("name") else "")),
    rule="crash after every k of the remove/rename calls of rotate() (explicit and inside write) for 0-4 rotated "
         "files present and maxRotatedFiles in {None,0,1,2,3}, followed by more writes; random histories of 1-13 ops "
         "(thorough: also 40) of byte writes, multi-byte text writes, rotate(), reopen(), crashes, with rotateLength "
         "in {None,0,1..8} (big: 7,16,33), retention in {None,0,1,2,3}, 0-4 pre-existing rotated files (20% with gaps "
         "in the numbering); log names with a sub-directory, glob metacharacters, spaces, non-ASCII; non-trivial = at least two rotated files in some snapshot",
    trusted=["hand-written model coq/C53/Model.v (tied by this correspondence run only)",
             "os.rename / os.remove are atomic and a killed process leaves the directory as the completed calls made "
             "it (files are opened unbuffered, so completed write() calls are in the file)"],
    assumptions=["the directory holds only the log file and its numbered siblings, written by one LogFile at a time",
                 "text is encodable as UTF-8 (no lone surrogates); len(str) <= len(str.encode('utf8'))",
                 "os.access says writable; no I/O errors"],
)
