#!/usr/bin/env python3
"""tools/seedstatus.py — record, in every seeded/*/meta.json, whether the kept patch still applies to /repo HEAD
(later fix: commits rewrote some of the lines the earlier seeds touch).  Verdicts are never changed here."""
import glob, json, os, subprocess
V = os.path.dirname(os.path.dirname(os.path.abspath(__file__)))
head = subprocess.run("git -C /repo rev-parse --short HEAD", shell=True, text=True, stdout=subprocess.PIPE).stdout.strip()
n = stale = 0
for d in sorted(glob.glob(os.path.join(V, "seeded", "*"))):
    p, m = os.path.join(d, "patch.diff"), os.path.join(d, "meta.json")
    if not (os.path.exists(p) and os.path.exists(m)):
        continue
    ok = subprocess.run(["git", "-C", "/repo", "apply", "--check", p], stdout=subprocess.DEVNULL,
                        stderr=subprocess.DEVNULL).returncode == 0
    meta = json.load(open(m))
    meta["applies_to_repo_head"] = {"head": head, "applies": ok}
    if not ok and not meta.get("followup"):
        meta["note"] = ("confirmed (demo, tests, check verdict above) against the /repo HEAD of the time; later fix: "
                        "commits rewrote lines this patch touches, so it no longer applies to the current HEAD")
    json.dump(meta, open(m, "w"), indent=1)
    n += 1; stale += (not ok)
print(f"{n} seeds, {stale} no longer apply to HEAD {head}")
