#!/bin/bash
# tools/seedtest.sh <Cxx> <patch.diff> [tier]  — apply a seeded change in a throw-away worktree of /repo and run
# the check against it (never touches /repo's working tree).  Prints the check's output; exit code = the check's.
set -u
PID="$1"; PATCH="$(readlink -f "$2")"; TIER="${3:-quick}"
WT="$(mktemp -d /tmp/seedwt.XXXXXX)"
rmdir "$WT"
git -C /repo worktree add -f --detach "$WT" HEAD >/dev/null 2>&1 || { echo "worktree failed"; exit 9; }
if ! git -C "$WT" apply "$PATCH"; then echo "patch does not apply"; git -C /repo worktree remove --force "$WT"; exit 9; fi
cd "$(dirname "$0")/.."
# private copy of the Coq tree and work dir, so regenerated Gen.v files and rebuilt .vo never touch /verif/coq
cp -r coq "$WT.coq"
VERIF_REPO="$WT" VERIF_COQ="$WT.coq" VERIF_WORK="$WT.work" VERIF_OUT="$WT.out" VERIF_COQCHK=0 ./check "$PID" --tier "$TIER"
rc=$?
echo "(replays of this run: kept only in the output above; evidence not written to /verif)"; for f in "$WT.out"/replays/*/*.json; do [ -f "$f" ] && { echo "--- $f"; head -c 1500 "$f"; echo; }; done 2>/dev/null | head -n 80
rm -rf "$WT.coq" "$WT.work" "$WT.out"
git -C /repo worktree remove --force "$WT" >/dev/null 2>&1
rm -rf "$WT"
exit $rc
