#!/bin/bash
# tools/applyfix.sh <patch> "<commit message after 'fix: '>" <test files...>  — apply one repair to /repo as a fix: commit
# (the listed existing test modules must not lose any BASELINE stable_pass test; the full suite is re-run separately)
set -u
PATCH="$(readlink -f "$1")"; MSG="$2"; shift 2
cd /repo || exit 9
git apply --check "$PATCH" || { echo "does not apply"; exit 9; }
git apply "$PATCH"
if [ $# -gt 0 ]; then
  J="$(mktemp /tmp/applyfix.XXXXXX.xml)"
  # run from a scratch directory so that test debris does not land in /repo
  T="$(mktemp -d /tmp/applyfix.cwd.XXXXXX)"; ABS=(); for t in "$@"; do ABS+=("/repo/$t"); done
  (cd "$T" && env -u TWISTED_VERIF PYTHONPATH=/repo/src /venv/bin/python -m pytest -q -p no:cacheprovider --rootdir=/repo --timeout=600 --junitxml="$J" "${ABS[@]}" 2>&1 | tail -n 2)
  rm -rf "$T"
  python3 - "$J" <<'PY'
import json, sys, xml.etree.ElementTree as ET
stable = set(json.load(open('/root/.vp/BASELINE.json'))['stable_pass'])
bad = []
for tc in ET.parse(sys.argv[1]).iter('testcase'):
    k = tc.get('classname') + '::' + tc.get('name')
    if k in stable and any(c.tag in ('failure', 'error', 'skipped') for c in tc):
        bad.append(k)
for b in bad: print("REGRESSION", b)
sys.exit(1 if bad else 0)
PY
  rc=$?; rm -f "$J"
  if [ $rc -ne 0 ]; then echo "STABLE TESTS REGRESSED — reverting"; git checkout -- src; exit 1; fi
fi
git add -A src && git commit -q -m "fix: $MSG" && git log --oneline -1
