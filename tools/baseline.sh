#!/bin/bash
# tools/baseline.sh <tree>  — run the pinned suite (guard off) on a tree and compare with BASELINE.json stable_pass
set -u
TREE="${1:-/repo}"
OUT="$(mktemp -d /tmp/baseline.XXXXXX)"
cd "$TREE" && env -u TWISTED_VERIF PYTHONPATH="$TREE/src" /venv/bin/python -m pytest -q -p no:cacheprovider --timeout=900 \
  --continue-on-collection-errors --junitxml="$OUT/junit.xml" > "$OUT/log" 2>&1
python3 - "$OUT/junit.xml" <<'PY'
import json, sys, xml.etree.ElementTree as ET
stable = set(json.load(open('/root/.vp/BASELINE.json'))['stable_pass'])
res = {}
for tc in ET.parse(sys.argv[1]).iter('testcase'):
    res[tc.get('classname') + '::' + tc.get('name')] = not any(c.tag in ('failure', 'error', 'skipped') for c in tc)
bad = sorted(s for s in stable if not res.get(s))
print(f"stable={len(stable)} passing={len(stable) - len(bad)}")
for s in bad[:50]:
    print("REGRESSION", s)
sys.exit(1 if bad else 0)
PY
rc=$?
rm -rf "$OUT"
exit $rc
