#!/usr/bin/env python3
"""Assemble /verif/MANIFEST.json from manifest.d/Cxx.json fragments (one per claimed property)
and manifest.d/not_applicable.json.  Every property of properties.jsonl that has no fragment and
no not_applicable entry is listed as not applicable with the reason 'check not built yet'."""
import glob
import json
import os

HERE = os.path.dirname(os.path.dirname(os.path.abspath(__file__)))
props = [json.loads(l)["id"] for l in open(os.path.join(HERE, "properties.jsonl"))]
na_path = os.path.join(HERE, "manifest.d", "not_applicable.json")
na = json.load(open(na_path)) if os.path.exists(na_path) else []
na_ids = {e["property_id"] for e in na}
checks = []
for pid in props:
    p = os.path.join(HERE, "manifest.d", pid + ".json")
    if not os.path.exists(p):
        continue
    frag = json.load(open(p))
    assert frag["property_id"] == pid
    entry = {
        "property_id": pid,
        "quick_cmd": f"./check {pid} --tier quick",
        "thorough_cmd": f"./check {pid} --tier thorough",
        "evidence_file": f"/verif/evidence/{pid}.json",
        "replay_cmd_template": f"./check {pid} --replay {{path}}",
        "engine": "coq-proof+correspondence",
        "level_claimed": frag["level_claimed"],
        "level_note": frag["level_note"],
        "technique": frag.get("technique", "Coq 8.16 proof over a Gallina model + differential correspondence"),
    }
    checks.append(entry)
claimed = {c["property_id"] for c in checks}
not_app = [e for e in na if e["property_id"] not in claimed]
for pid in props:
    if pid not in claimed and pid not in na_ids:
        not_app.append({"property_id": pid, "reason": "not claimed yet: the Coq model and its correspondence check "
                        "for this property are not built (planned in DESIGN.md section 5)"})
hooks_path = os.path.join(HERE, "manifest.d", "hooks.json")
hooks = json.load(open(hooks_path)) if os.path.exists(hooks_path) else {}
m = {
    "version": 1,
    "setup_cmd": "./setup.sh",
    "hooks": {
        "guard": "TWISTED_VERIF",
        "enable": "checks run the implementation from /repo/src with TWISTED_VERIF=1 in the environment "
                  "(no guarded hook exists in /repo at present; all interception is done from the harness)",
        "baseline_off_cmd": "cd /repo && env -u TWISTED_VERIF /venv/bin/python -m pytest -ra -q -p no:cacheprovider "
                            "--timeout=900 --continue-on-collection-errors",
        "source_commits": hooks.get("source_commits", []),
        "add_only": True,
    },
    "engines": [
        {"name": "coq-proof+correspondence", "path": "/verif/check",
         "serves_properties": sorted(claimed),
         "kind_free_text": "Coq 8.16.1 theorems over Gallina models (coq/Cxx), tied to /repo by a fail-closed "
                           "Python-ast translator (translate/) and/or by a differential correspondence check that "
                           "evaluates the model with vm_compute and the implementation on the same cases "
                           "(harness/)"}
    ],
    "checks": checks,
    "not_applicable": not_app,
    "notes": "Single entry point ./check Cxx --tier quick|thorough [--replay file]; VERIF_SEED seeds every random "
             "choice; VERIF_REPO (default /repo) selects the tree under test. See DESIGN.md.",
}
with open(os.path.join(HERE, "MANIFEST.json"), "w") as f:
    json.dump(m, f, indent=1)
    f.write("\n")
# known findings: one committed file, assembled from known_findings.d/*.json fragments
kf = {"findings": [], "fixed": []}
for p in sorted(glob.glob(os.path.join(HERE, "known_findings.d", "*.json"))):
    d = json.load(open(p))
    kf["findings"] += d.get("findings", [])
    kf["fixed"] += d.get("fixed", [])
with open(os.path.join(HERE, "known_findings.json"), "w") as f:
    json.dump(kf, f, indent=1)
    f.write("\n")
print(f"MANIFEST.json: {len(checks)} checks, {len(not_app)} not applicable")
