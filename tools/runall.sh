#!/bin/bash
# tools/runall.sh [tier] [jobs] — run every claimed check (MANIFEST.json) and summarise (dev helper)
cd "$(dirname "$0")/.."
TIER="${1:-quick}"; J="${2:-4}"
mkdir -p .work/runall
python3 -c "import json;print('\n'.join(c['property_id'] for c in json.load(open('MANIFEST.json'))['checks']))" > .work/runall/pids
cat .work/runall/pids | xargs -P "$J" -I{} bash -c 'start=$(date +%s); VERIF_JOBS=4 VERIF_COQCHK=0 timeout 3000 ./check {} --tier '"$TIER"' > .work/runall/{}.log 2>&1; rc=$?; echo "{} rc=$rc t=$(( $(date +%s) - start ))s $(grep -c VIOLATION .work/runall/{}.log) violations, $(grep -c KNOWN-FINDING .work/runall/{}.log) known"'
