#!/usr/bin/env python3
"""Refresh the generated tail of DESIGN.md: section 12 (per-property as-built notes from design.d/Cxx.md),
section 13 (defects found: fixed / known findings) and section 14 (seeded changes and which checks caught them).
Everything after the marker line is regenerated; the hand-written sections above it are left alone."""
import glob
import json
import os
import re

HERE = os.path.dirname(os.path.dirname(os.path.abspath(__file__)))
MARK = "<!-- GENERATED BELOW: tools/mkdesign.py -->"
path = os.path.join(HERE, "DESIGN.md")
text = open(path).read()
head = text.split(MARK)[0].rstrip() + "\n\n" + MARK + "\n"
out = [head]

out.append("\n---------------------------------------------------------------------------------------------\n")
out.append("\n## 12. Per-property notes as built (from design.d/)\n")
out.append("\nEach subsection is the builder's own account: what is modelled, which theorems are proved (and which are\n"
           "`_partial` / `_refuted`), how the model is tied to the code, the generator and oracle, the mutations tried,\n"
           "and what is not covered.\n")
for p in sorted(glob.glob(os.path.join(HERE, "design.d", "C*.md"))):
    pid = os.path.basename(p)[:-3]
    body = open(p).read().strip()
    body = re.sub(r"^# ", "#### ", body, flags=re.M)
    body = re.sub(r"^## ", "##### ", body, flags=re.M)
    out.append(f"\n### 12.{pid}\n\n{body}\n")

kf = json.load(open(os.path.join(HERE, "known_findings.json")))
out.append("\n---------------------------------------------------------------------------------------------\n")
out.append("\n## 13. Defects found by the checks\n")
out.append("\nRepaired in /repo (one `fix:` commit each; the pinned suite still passes — `tools/baseline.sh /repo`):\n\n")
for line in kf.get("fixed", []):
    out.append(f"* {line}\n")
out.append("\nKnown findings (genuine, not repaired: no small safe patch; each check prints `KNOWN-FINDING:` and exits 0,\n"
           "and accepts a repaired behaviour silently inside the finding's input class):\n\n")
for e in kf.get("findings", []):
    out.append(f"* **{e['property']}** `{e['tag']}` — {e.get('what', '')}\n")

out.append("\n---------------------------------------------------------------------------------------------\n")
out.append("\n## 14. Seeded changes (independent sub-agents) and which checks catch them\n")
out.append("\nEach change was written by a sub-agent that saw only the property text and a scratch worktree; it passes the\n"
           "existing tests and comes with a demonstration that fails with it and passes without it (kept under\n"
           "`seeded/<Cxx>-<id>/`: patch.diff, demo.py, meta.json).  `tools/seedkeep.py` confirmed each one and ran the\n"
           "property's quick check against the changed tree.  'input' = VIOLATION with a concrete failing input;\n"
           "'tie only' = VIOLATION … no-failing-input-found; 'MISSED' = the check stayed silent at the time of the\n"
           "last run recorded in meta.json (misses are followed up by strengthening the generator/oracle).\n\n")
_all = [json.load(open(p)) for p in sorted(glob.glob(os.path.join(HERE, "seeded", "*", "meta.json")))]
_live = [m for m in _all if not m.get("followup")]
out.append(f"Totals: {len(_all)} confirmed changes kept; {sum(1 for m in _live if m.get('detected_with_failing_input'))} "
           f"reported with a concrete failing input, {sum(1 for m in _live if m.get('detected') and not m.get('detected_with_failing_input'))} "
           f"as a broken tie only, {sum(1 for m in _live if not m.get('detected'))} missed at the last recorded run, "
           f"{len(_all) - len(_live)} made obsolete or superseded by a later fix: commit.\n\n")
out.append("| seeded change | property | what it needs to manifest | result of the check |\n|---|---|---|---|\n")
for p in sorted(glob.glob(os.path.join(HERE, "seeded", "*", "meta.json"))):
    m = json.load(open(p))
    name = os.path.basename(os.path.dirname(p))
    res = "input" if m.get("detected_with_failing_input") else ("tie only" if m.get("detected") else "MISSED")
    if m.get("followup"):
        res += " → " + m["followup"]
    elif m.get("note"):
        res += " (" + m["note"] + ")"
    need = (m.get("needs_to_manifest") or m.get("summary") or "").replace("\n", " ").replace("|", "/")
    out.append(f"| {name} | {m.get('property')} | {need[:260]} | {res} |\n")
open(path, "w").write("".join(out))
print("DESIGN.md regenerated tail:", sum(len(x) for x in out), "chars")
