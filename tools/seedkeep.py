#!/usr/bin/env python3
"""tools/seedkeep.py Cxx [A B ...] — confirm seeded changes from /tmp/seed_out/Cxx and keep them under
/verif/seeded/Cxx-<id>/ (patch.diff, demo.py, meta.json) together with what our check said.

For each change: fresh throw-away worktree of /repo; demo must exit 0 without the change and non-zero with it;
the existing test modules named in the seeder's meta.json (or found next to the touched files) must pass with it;
then the check is run against the changed tree (private Coq copy) and its verdict recorded.
"""
import json
import os
import shutil
import subprocess
import sys
import tempfile
import time

VERIF = os.path.dirname(os.path.dirname(os.path.abspath(__file__)))


def sh(cmd, **kw):
    return subprocess.run(cmd, shell=True, text=True, stdout=subprocess.PIPE, stderr=subprocess.STDOUT, **kw)


def main():
    pid = sys.argv[1]
    src = f"/tmp/seed_out/{pid}"
    meta_in = json.load(open(os.path.join(src, "meta.json"))) if os.path.exists(os.path.join(src, "meta.json")) else {}
    for extra in ("meta2.json", "meta3.json", "meta4.json", "meta5.json"):
        if os.path.exists(os.path.join(src, extra)):
            m2 = json.load(open(os.path.join(src, extra)))
            meta_in.setdefault("changes", []).extend(m2.get("changes", []))
    changes = {c.get("id"): c for c in meta_in.get("changes", [])}
    ids = sys.argv[2:] or sorted(f[:-5] for f in os.listdir(src) if f.endswith(".diff"))
    for cid in ids:
        patch = os.path.join(src, f"{cid}.diff")
        demo = os.path.join(src, f"demo_{cid}.py")
        wt = tempfile.mkdtemp(prefix="seedwt.", dir="/tmp")
        os.rmdir(wt)
        sh(f"git -C /repo worktree add -f --detach {wt} HEAD")
        env = dict(os.environ, PYTHONPATH=f"{wt}/src", PYTHONHASHSEED="0", PYTHONDONTWRITEBYTECODE="1")
        rec = {"property": pid, "change": cid, "summary": changes.get(cid, {}).get("summary"),
               "needs_to_manifest": changes.get(cid, {}).get("needs_to_manifest"), "ran": []}
        try:
            r0 = sh(f"cd {wt} && timeout 600 /venv/bin/python {demo}", env=env)
            rec["demo_without_change_rc"] = r0.returncode
            ap = sh(f"git -C {wt} apply {patch}")
            if ap.returncode != 0:
                rec["error"] = "patch does not apply: " + ap.stdout[-300:]
                print(json.dumps(rec, indent=1))
                continue
            r1 = sh(f"cd {wt} && timeout 600 /venv/bin/python {demo}", env=env)
            rec["demo_with_change_rc"] = r1.returncode
            rec["demo_with_change_tail"] = r1.stdout[-400:]
            tests = [t for t in changes.get(cid, {}).get("tests_run", []) if isinstance(t, str)]
            tests = [t.split()[0] for t in tests if t.strip()]
            tests = [t for t in tests if os.path.exists(os.path.join(wt, t.split("::")[0]))]
            if tests:
                rt = sh(f"cd {wt} && timeout 3000 /venv/bin/python -m pytest -q -p no:cacheprovider --timeout=600 "
                        + " ".join(tests) + " 2>&1 | tail -n 3", env=env)
                rec["tests"] = tests
                rec["tests_tail"] = rt.stdout[-300:]
            rec["ran"].append("demo without/with change; existing test modules with change")
            # our check against the changed tree
            coqcopy, work = wt + ".coq", wt + ".work"
            shutil.copytree(os.path.join(VERIF, "coq"), coqcopy)
            t0 = time.time()
            rc = sh(f"cd {VERIF} && VERIF_REPO={wt} VERIF_COQ={coqcopy} VERIF_WORK={work} VERIF_OUT={wt}.out VERIF_COQCHK=0 "
                    f"timeout 3000 ./check {pid} --tier quick")
            rec["check_rc"] = rc.returncode
            rec["check_wall_s"] = round(time.time() - t0, 1)
            rec["check_output_tail"] = rc.stdout[-600:]
            rec["detected"] = rc.returncode == 1 and "VIOLATION property=" + pid in rc.stdout
            rec["detected_with_failing_input"] = rec["detected"] and "no-failing-input-found" not in rc.stdout
            shutil.rmtree(coqcopy, ignore_errors=True)
            shutil.rmtree(wt + ".out", ignore_errors=True)
            shutil.rmtree(work, ignore_errors=True)
            ok = rec.get("demo_without_change_rc") == 0 and rec.get("demo_with_change_rc", 0) != 0
            rec["confirmed"] = ok
            if ok:
                out = os.path.join(VERIF, "seeded", f"{pid}-{cid}")
                os.makedirs(out, exist_ok=True)
                shutil.copy(patch, os.path.join(out, "patch.diff"))
                shutil.copy(demo, os.path.join(out, "demo.py"))
                json.dump(rec, open(os.path.join(out, "meta.json"), "w"), indent=1)
            print(f"{pid}-{cid}: confirmed={ok} detected={rec['detected']} with_input={rec['detected_with_failing_input']} "
                  f"check_rc={rec['check_rc']} t={rec['check_wall_s']}s tests={rec.get('tests_tail', '').strip()[-80:]!r}")
        finally:
            sh(f"git -C /repo worktree remove --force {wt}")
            shutil.rmtree(wt, ignore_errors=True)


if __name__ == "__main__":
    main()
